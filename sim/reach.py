#!/venv/bin/python
"""Reach measurement (not a registered check): which lines of mabwiser/*.py does the workload of the checks execute?

  reach.py [--runs N] [--props C01,C05] [--tier quick] [--out /tmp/reach.json]

Every property's generator is run for N seeded cases, each executed in this process under coverage.py; the union of the
executed lines is compared with the executable lines of every module under <MABWISER_SRC>/mabwiser. Lines that no check
reaches are the blind spots a seeded change can hide in. Process-mode workers and helper interpreters are stubs /
other processes and do not count (the process stub executes the same code in this process)."""
import json
import os
import sys

HERE = os.path.dirname(os.path.abspath(__file__))
SRC = os.environ.get("MABWISER_SRC", "/repo")
sys.path.insert(0, HERE)
sys.path.insert(0, SRC)
os.environ.setdefault("OMP_NUM_THREADS", "1")


def main():
    import argparse
    ap = argparse.ArgumentParser()
    ap.add_argument("--runs", type=int, default=150)
    ap.add_argument("--props", default=",".join("C%02d" % i for i in range(1, 21)))
    ap.add_argument("--tier", default="quick")
    ap.add_argument("--out", default=None)
    ap.add_argument("--seed", type=int, default=0)
    a = ap.parse_args()
    import coverage
    cov = coverage.Coverage(data_file=None, include=[os.path.join(SRC, "mabwiser", "*.py")], branch=True)
    cov.start()            # before mabwiser is imported, so that module-level lines count as reached
    from mabsim import driver
    cov.stop()
    per_prop = {}
    for prop in a.props.split(","):
        mod = driver.load_mod(prop)
        cov.start()
        bad = 0
        for i in range(a.runs):
            case = driver.case_for(mod, a.seed, a.tier, i)
            try:
                driver.exec_case(mod, case)
            except Exception as e:   # a harness error here is not a verdict
                bad += 1
        cov.stop()
        per_prop[prop] = bad
        print(prop, "done, harness errors:", bad, flush=True)
    report = {}
    import glob
    for f in sorted(glob.glob(os.path.join(SRC, "mabwiser", "*.py"))):
        try:
            _, executable, _, missing, _ = cov.analysis2(f)
        except Exception as e:
            continue
        report[os.path.basename(f)] = {"executable": len(executable), "missing": missing}
        print("%-18s %4d executable, %3d never reached: %s" % (os.path.basename(f), len(executable), len(missing),
                                                                  _ranges(missing)))
    if a.out:
        json.dump({"runs_per_property": a.runs, "harness_errors": per_prop, "files": report}, open(a.out, "w"), indent=1)


def _ranges(xs):
    out, start, prev = [], None, None
    for x in xs:
        if start is None:
            start = prev = x
        elif x == prev + 1:
            prev = x
        else:
            out.append("%d-%d" % (start, prev) if prev > start else str(start))
            start = prev = x
    if start is not None:
        out.append("%d-%d" % (start, prev) if prev > start else str(start))
    return ",".join(out)


if __name__ == "__main__":
    main()
