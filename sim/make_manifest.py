#!/usr/bin/env python3
"""Writes /verif/MANIFEST.json (kept in one place so that texts and commands stay consistent)."""
import json
import os

VERIF = os.path.dirname(os.path.dirname(os.path.abspath(__file__)))
BASE = ("cd /verif && env OMP_NUM_THREADS=1 OPENBLAS_NUM_THREADS=1 MKL_NUM_THREADS=1 PYTHONHASHSEED=0 timeout %d "
        "/venv/bin/python sim/run.py --property %s --tier %s")
TRUST = ("Trusted base: the simulator itself (SimParallel as stand-in for joblib: thread mode = real threads released one "
         "at a time at sys.monitoring events, process mode = pickle-copy stub of loky/multiprocessing), numpy/scipy/"
         "scikit-learn/pandas, OMP/BLAS threads = 1. Seeded sampling, not proof: a clean batch is evidence only. ")

P = {
 "C01": ("exploration", "reference model (RefContextFree) checked after every operation of seeded histories; sampler replay on cloned generators; rejected calls, restarts and thread schedules injected",
         "After every operation of a generated history (fit/partial_fit with 0-24 rows and omitted arms, add/remove/re-add arm, queries; rejected calls and pickle/deepcopy restarts mixed in; n_jobs>1 training under seeded thread schedules; zero/negative/large arm labels; in some runs a batch of 300-600 rewards delivered as a uint8/int8 array) the parameters the bandit holds equal an independent per-arm reference model, and every predict_expectations/predict result equals the documented sampler replayed on a clone of the generator with the reference's parameters.",
         "The sampler replay encodes the documented order of draws (changing it changes every pinned constant of the repository's tests). Popularity with all-zero means: only 'non-negative, sums to one' is required."),
 "C02": ("exploration", "reference model (RefRidge: numpy.linalg.solve on the raw per-arm history) over seeded history splits; LinTS draw replay with oracle mean/covariance",
         "Every query of a generated fit/partial_fit/arm-change history (d in 1..4 incl. d=1 with m>1, lambda in {0.1..10}, scale=True with a single fit, restarts; in a fifth of the runs the caller re-uses one pre-allocated ndarray/list/DataFrame per argument and overwrites it in place for the next call) is compared with x.beta (+ alpha*sqrt(x'A^-1x)) computed from scratch, LinTS by centring at alpha=1e-9 and by replaying the multivariate normal draw on copies of the generators with the oracle's mean and covariance.",
         "The closed-form arithmetic itself is a function of the input; the simulated part is the history split, arm bookkeeping and restarts. Known finding KF-C02-ainv-lambda-unobserved-arm is attributed only when the oracle recomputed with covariance lambda*I for the never-observed arms reproduces the observation."),
 "C03": ("exploration", "reference model (exact integer distances, all valid k-nearest tie selections) + fresh real learning-policy bandit per query row; queries under seeded worker schedules and partitions",
         "For Radius/KNearest over every context-free and linear policy, integer-grid contexts and four exact metrics, radii placed ON realised distances, k up to the history size, histories fit+partial_fit* with restarts and add_arm/remove_arm between the chunks (rows of a removed arm stay stored observations): each query row's result equals a fresh learning-policy bandit trained on exactly the oracle-selected rows with the per-row generator; empty neighbourhoods give all-NaN expectations and an arm with non-zero probability.",
         "Per-row seeding (seeds drawn from the bandit generator, one generator per row) is mirrored by the oracle; euclidean boundary checks depend on a calibration guard (cdist == correctly rounded sqrt) evaluated at start-up."),
 "C04": ("exploration", "deterministic simulation of interference schedules: other bandits constructed/trained/queried between any two steps; twins in lock-step and skewed; further interpreter processes with other hash seeds",
         "Output sequences of a scripted bandit are compared alone vs. with an interference script (other seeds, default-constructed and shared policy tuples, especially between construction and first fit), vs. twins driven in lock-step/skewed order, vs. executions in two other interpreter processes (PYTHONHASHSEED=1 and random), with data that makes the trees' random_state observable.",
         "Assumes single-threaded numerical kernels as the property states. The other interpreters are long-lived helper processes; each request resets mabwiser's process-global defaults so a replay in a fresh process sees the same thing. A violation that recurs only in some re-executions of the same case is reported as [intermittent] (the system under test is then not a function of its inputs)."),
 "C05": ("exploration", "seeded scheduler over thread interleavings / process batching / partitions; replica-vs-primary refinement; per-row decomposition; exact-cover monitor",
         "A replica with drawn n_jobs/backend/cores executes every operation under a per-operation seeded scheduler (thread completion order and LINE/INSTRUCTION-level interleavings of the shared-memory fit/insert tasks, process batching onto pickled copies, arbitrary contiguous partitions) and must equal the n_jobs=1 primary on every output and on the learned model; plus per-row decomposition on fresh copies and an exact-cover monitor on the real partition function (incl. a complete sweep n<=64 x n_jobs in -3..66).",
         "Known finding KF-C05-treebandit-shared-rng covers differing VALUES for TreeBandit+TS/EG(eps>0) only; structure and models stay checked."),
 "C06": ("exploration", "F-CHUNK: seeded chunkings of the training stream, the chunked side also with n_jobs>1 under seeded worker schedules; fresh batch-trained replica after every chunk; stream sync; parameter-view and observation equality",
         "After every chunk of a drawn chunking (sizes>=1, chunks omitting arms, first chunk by fit or partial_fit; in 30% of the runs the chunked bandit trains with n_jobs>1 under a per-chunk seeded thread/process schedule) a fresh n_jobs=1 replica is fit once on the prefix, random-stream positions are copied across, and parameter views and predict/expect/predict observations must coincide (== in the exact arithmetic regime, 1e-9/1e-7 relative otherwise). TreeBandit and scale=True excluded as the property says.",
         "Exact regime = integer-grid contexts and dyadic rewards so that bit-for-bit equality is a sound expectation."),
 "C07": ("exploration", "F-REFIT at arbitrary history points (also on the same contexts with other outcomes, also with n_jobs>1 under seeded worker schedules); fresh replica with the current arm list; stream sync; whole continuation compared",
         "Every later fit of a generated history (after partial_fit, arm changes, warm_start, queries; new data smaller/larger/with another column count, or the SAME contexts with other decisions and rewards; in 30% of the runs the refitted bandit trains with n_jobs>1 under seeded schedules) is mirrored on a freshly constructed bandit that gets the primary's stream position; parameter views, cold_arms, observations and the whole continuation must coincide.",
         "Parameter views deliberately exclude unobservable internals (template policy statistics inside Radius/KNearest/LSH/TreeBandit, empty hash buckets)."),
 "C08": ("exploration", "arm-set/shape invariants checked after EVERY step of seeded histories, queries under seeded schedules/partitions, restarts injected",
         "A trivial model of the arm list is maintained through add/remove/fit/partial_fit/warm_start histories (arm changes before the first fit included, all label types, all n_jobs/backends); a sibling bandit built from the SAME arms list object changes its own arms at drawn points; after every step the bandit is queried with m=1, m>1 and without contexts: predict in arms, expectation keys == arms in order, result length == m, and for policies with deterministic expectations the i-th result of a multi-row call equals the answer to the i-th row asked alone on a copy (row order).",
         "no_nhood_prob_of_arm is None whenever arm changes are generated (a fixed-length probability list against a changed arm count is a caller inconsistency)."),
 "C09": ("exploration", "two deep copies per query point under the same schedule seed; first-arg-max relation; tie-prone data regimes",
         "At every query point of a generated history (training, arm changes, warm_start) two deep copies answer predict and predict_expectations under the same per-operation schedule seed; per row predict must be the first arm attaining the maximum (NaN rows: predict in arms). TreeBandit+EpsilonGreedy(eps>0) excluded as stated.",
         ""),
 "C10": ("exploration", "queried primary vs never-queried deep copy; queries under seeded thread/process schedules, random partitions and injected worker failures; stream sync; continuation equality",
         "The primary answers a drawn number of queries under seeded schedules (thread mode shares self between workers), random partitions and injected prediction-worker failures; then all stream positions are copied to the unqueried copy and parameter views plus a common continuation must coincide exactly.",
         "Failures are injected into prediction workers only (a failed query is still a query); training-worker failures are deliberately not injected (no property promises atomicity there)."),
 "C11": ("exploration", "reference model (sign patterns from the bandit's own planes) + fresh learning-policy bandit; scale law; hashing/insert tasks under seeded schedules and partitions",
         "For drawn n_dimensions (1..6, in a tenth of the runs 31..40)/n_tables/d and histories fit+partial_fit* with restarts, each query row (stored rows, positive multiples, the zero vector, random rows) must return what a fresh learning-policy bandit trained on exactly the oracle collision set returns; expect(c*X)==expect(X) for context-free policies; hashing and bucket inserts run under seeded process/thread schedules.",
         "Queries whose projection is within 1e-9*|x||p| of zero (not the zero vector) are indeterminate and skipped (counted)."),
 "C12": ("exploration", "reference model over cells read from the fitted k-means/trees; fresh learning-policy bandit (Clusters), leaf statistic with sampler replay (TreeBandit)",
         "Clusters: each query row equals a fresh learning-policy bandit trained on exactly the stored rows in the query's k-means cell (LinTS: distribution parameters beta/A_inv). TreeBandit: per arm the statistic over exactly that arm's rewards in the query's leaf (mean, UCB1 with N=n=leaf count, Beta by sampler replay); unobserved arms keep 0; after every TreeBandit query further rows placed ON a split threshold of the fitted trees and one float64 ulp above it are asked on a copy. Histories with partial_fit, arm changes, restarts.",
         "The fitted scikit-learn objects are read from the implementation: the property is about conditioning on the cell, not about how cells are learnt. TreeBandit+TS with binarizer is routed to C14."),
 "C13": ("exploration", "relations on deep copies (unchanged trained arms, nearest trained source within the documented threshold, monotone in quantile, idempotent under duplicated delivery, cold_arms model) over seeded histories with F-DUP and F-RESTART",
         "Every warm_start of a generated history is delivered twice (optionally across a restart) and compared with another quantile on a deep copy: trained/warm arms untouched, each newly warm arm equals exactly a trained arm at minimal cosine distance within the quantile threshold, warm set monotone in the quantile, repetition changes nothing, cold_arms follows a trivial model after every operation, raising calls change nothing.",
         "Per-arm state excludes soft-max shares (they legitimately move when another arm's mean appears)."),
 "C14": ("exploration", "replica without binarizer fed pre-converted rewards (exactly-once check); non-idempotent binarizers; known-finding discriminator",
         "ThompsonSampling with a binarizer, alone and under every neighbourhood policy, over histories with fit/partial_fit/queries/add_arm(arm, new_binarizer), including bandits built WITHOUT a binarizer that get their first one from add_arm: a replica without binarizer fed binarizer(decision,reward) must return exactly the same from the same seed. Binarizers are not idempotent on {0,1}, so double application is visible. In 30% of the runs both bandits have n_jobs>1 and the one with the binarizer trains under seeded worker schedules (the binarizer is called from the workers).",
         "KF-C14-treebandit-leaf-binarized-twice is attributed only if converting the replica's stored leaf rewards a second time reproduces the observation exactly."),
 "C15": ("exploration", "Simulator world: several bandits in one Simulator, chunk-budget knob (F-KNOB), seeded schedule/partitions inside mabwiser.simulator; reference driver over the public API",
         "One Simulator with 1-4 bandits (different metrics together, different n_jobs, ThompsonSampling with and without binarizer), offline/online, drawn batch size, is_quick, chunk budget 1..|test| through a seam, all workers under one seeded schedule: reported predictions (and expectations of deterministic policies) must equal deep copies of the original bandits driven through MAB.fit/predict/predict_expectations/partial_fit with the independently computed split; randomised policies may match either protocol variant.",
         "Known findings: online chunk budget < batch size; non-integral float arms (confusion_matrix); TreeBandit TS/EG(eps>0) with n_jobs!=1 (schedule dependent, see C05). The Simulator's {} for an empty neighbourhood is treated as the API's all-NaN dict."),
 "C16": ("exploration", "conservation / exactly-once laws recomputed independently on the simulated Simulator runs (chunk-budget knob, seeded schedules and partitions)",
         "On the same simulated runs as C15: test indices and complement partition the rows (last rows when ordered, equal to the documented split), one prediction per test row, per-arm statistics equal direct recomputation and train+test=total, the neighbourhood statistics of Radius/KNearest bandits recomputed from scratch (distances of the rows stored at that time to the one test row; numerically ambiguous rows skipped and counted), the default evaluation recomputed independently equals the reported one per batch and in total, counts sum to |test|, min<=mean<=max.",
         "Apart from the chunk-budget knob and worker partitions/schedules this property is a function of the input: most decisive variation is generated input; claimed as exploration, no more."),
 "C17": ("fault_enumeration", "enumeration of (47 policy combinations) x (91-entry catalogue of invalid calls, training shape errors and valid calls) x (5 history positions); replica that never saw the fault; continuation equality without re-synchronisation",
         "Quick covers the full cross product once: for every policy-combination class, every catalogue entry (invalid arguments of fit/partial_fit/predict/predict_expectations/add_arm/remove_arm/warm_start/__init__, shape errors inside training) and every history-position class, the call is made on the primary; if it raises, arm list, parameter view and ALL random-stream positions must equal a deep copy that never saw it and a continuation (always a further partial_fit and queries) must return exactly the same; in 30% of the runs the rejected call itself executes with n_jobs>1 under a drawn worker schedule, and half of the contextual continuations end with one context handed over as a pandas Series; thorough adds random histories around the fault.",
         "A catalogue call that does not raise makes no claim (counted as 'not rejected'). Shape errors surfacing from prediction are not in the catalogue (the property lists training shape errors only)."),
 "C18": ("exploration", "byte-level snapshots of all caller-owned objects around every call; caller mutations of the arms list, reuse of policy tuples and in-place re-use of the caller's data buffers injected; replica fed other container types and dtypes",
         "Snapshots (bytes, dtype, strides, pickles) of data containers, the arms list, policy tuples and their inner dicts/lists, and the arm-feature dict are compared around every call incl. __init__; the caller appends to/reverses/clears its arms list and reuses its policy tuples for another bandit at drawn points; the replica gets each operation's data as ndarray C/F/transposed/non-contiguous, int/float, float32, int8/int16/uint8 (values that fit while products/sums do not; 300-700 rewards in one byte array), Series, DataFrame (also with a non-default index), single-row/single-feature Series, or - in 15% of the runs - in ONE pre-allocated container per argument that the caller overwrites in place for the next call, and must equal the list-fed primary exactly.",
         "The container-type half is generated-input checking (no schedule or fault in it). Series as query contexts of a context-free bandit are not generated (contexts are ignored there; outside the stated quantifier)."),
 "C19": ("exploration", "F-RESTART at every history position class: deepcopy, pickle protocols 2-5, and restore in another interpreter process; copy runs ahead, original must follow and stay equal to a never-copied third bandit",
         "At restart points placed before fit, after training, after arm changes/warm start and between queries and partial_fit, the bandit is deep-copied / pickled (protocols 2-5) / restored in another interpreter with another hash seed; the copy runs the next operations first, then the original must return exactly the same and stay equal to a third bandit that was never copied; generator aliasing must survive the copy.",
         "Binarizers are module-level functions."),
 "C20": ("exploration", "F-REORDER: replica receives the same multiset of rows in another order and chunking; relabelled/shifted/scaled replicas",
         "Row order: the replica gets the same rows since the last fit in a drawn permutation and an independent chunking; parameter views (without the stored history) and observations must coincide for context-free/linear policies and Radius/LSHNearest over them. Relabelling int<->str<->float keeping order renames outputs only; reward shift/scale laws for greedy/UCB1/Softmax/LinGreedy.",
         "Relabelling and reward laws are pure input symmetries (no schedule or fault); they ride on the replica machinery and are claimed at the weakest level."),
}


def main():
    checks = []
    for pid in sorted(P):
        cat, tech, text, note = P[pid]
        checks.append({
            "property_id": pid,
            "quick_cmd": BASE % (900, pid, "quick"),
            "thorough_cmd": BASE % (3000, pid, "thorough"),
            "evidence_file": "/verif/evidence/%s.json" % pid,
            "replay_cmd_template": "cd /verif && /venv/bin/python sim/run.py --replay {path}",
            "engine": "mabsim",
            "level_claimed": {"category": cat, "text": text, "design_ref": "DESIGN.md section 7 (%s)" % pid},
            "level_note": TRUST + note,
            "technique": "deterministic simulation with fault injection: " + tech,
        })
    m = {
        "version": 1,
        "setup_cmd": "/venv/bin/python -c \"import mabwiser, numpy, sklearn, scipy, pandas, sys; assert sys.version_info >= (3, 12)\"",
        "hooks": {
            "guard": "MABWISER_VERIF",
            "enable": "no source hooks exist: every seam is a module / class / instance attribute swapped from outside by /verif/sim/mabsim/seams.py and simworld.py (joblib.Parallel names, mp.cpu_count, BaseMAB._partition_contexts, Simulator._chunk_size); MABWISER_SRC selects the tree under test (default /repo)",
            "baseline_off_cmd": "cd /repo && OMP_NUM_THREADS=1 /venv/bin/python -m pytest -ra -q -p no:cacheprovider --timeout=900 --continue-on-collection-errors",
            "source_commits": [],
            "add_only": True,
        },
        "engines": [{"name": "mabsim", "path": "sim/run.py", "serves_properties": sorted(P),
                     "kind_free_text": "deterministic simulation with fault injection: one seed -> one replayable run; seeded scheduler (SimParallel) over thread interleavings, process batching, partitions, machine size; generated operation histories with restarts, rejected calls, interference, reordering, chunking, knob settings, caller-owned buffers / dictionaries re-used in place, narrow dtypes; reference models and replicas as oracles; ddmin minimisation; JSON replay files"}],
        "checks": checks,
        "notes": "All checks: exit 0 = held on everything explored (KNOWN-FINDING lines for entries of /verif/known_findings.json), exit 1 = 'VIOLATION property=<id> replay=<path>' (minimised, replayed once in a fresh interpreter before being printed), exit 2 = HARNESS-ERROR (never a verdict). Env: VERIF_SEED, VERIF_TIER, VERIF_BUDGET_S (thorough, default 900 s), VERIF_RUNS, VERIF_WORKERS. Self-test: sim/run.py --selftest determinism. Sensitivity: sim/mutant.py --all [--target-only --runs N] (147 seeded changes under /verif/seeded: 20 reverts of fix commits, 127 written independently by sub-agents (one retired)). Reach of the workloads: sim/reach.py (lines of mabwiser that no check executes).",
        "not_applicable": [],
    }
    json.dump(m, open(os.path.join(VERIF, "MANIFEST.json"), "w"), indent=1)


if __name__ == "__main__":
    main()
