#!/venv/bin/python
"""Sensitivity driver: apply a change to a scratch copy of /repo (outside /repo and /verif), run the quick checks of the
given properties against it (MABWISER_SRC), report which raise a VIOLATION, remove the scratch copy.

  mutant.py --patch /verif/seeded/<id>/patch.diff --props C05,C06
  mutant.py --revert <fix-commit> --props C07            (re-introduces a repaired defect)
  mutant.py --all                                        (every /verif/seeded/*/ with its meta.json 'properties')
"""
import argparse
import json
import os
import shutil
import subprocess
import sys
import tempfile
import time

VERIF = os.path.dirname(os.path.dirname(os.path.abspath(__file__)))


def run_one(patch, revert, props, runs=None, keep=False, tier="quick", budget=None):
    tmp = tempfile.mkdtemp(prefix="mabmut_")
    src = os.path.join(tmp, "repo")
    out = os.path.join(tmp, "out")
    try:
        subprocess.run(["git", "clone", "-q", "--no-hardlinks", "/repo", src], check=True)
        # carry over uncommitted working-tree changes of /repo (checks must track the working tree)
        d = subprocess.run(["git", "-C", "/repo", "diff", "HEAD"], capture_output=True, text=True).stdout
        if d.strip():
            subprocess.run(["git", "-C", src, "apply"], input=d, text=True, check=True)
        if revert:
            d = subprocess.run(["git", "-C", "/repo", "diff", revert, revert + "^"], capture_output=True, text=True).stdout
            subprocess.run(["git", "-C", src, "apply"], input=d, text=True, check=True)
        if patch:
            subprocess.run(["git", "-C", src, "apply", os.path.abspath(patch)], check=True)
        res = {}
        for p in props:
            env = dict(os.environ, MABWISER_SRC=src, VERIF_OUT=out, PYTHONHASHSEED="0")
            cmd = [sys.executable, os.path.join(VERIF, "sim", "run.py"), "--property", p, "--tier", tier]
            if runs:
                cmd += ["--runs", str(runs)]
            if budget:
                cmd += ["--budget", str(budget)]
            t0 = time.time()
            r = subprocess.run(cmd, capture_output=True, text=True, env=env)
            classes = [l for l in r.stdout.splitlines() if l.startswith("violation class")]
            res[p] = {"rc": r.returncode, "classes": classes[:6], "wall": round(time.time() - t0, 1),
                      "tail": r.stdout[-400:] if r.returncode == 2 else ""}
        return res
    finally:
        if not keep:
            shutil.rmtree(tmp, ignore_errors=True)


def main():
    ap = argparse.ArgumentParser()
    ap.add_argument("--patch")
    ap.add_argument("--revert")
    ap.add_argument("--props")
    ap.add_argument("--runs", type=int)
    ap.add_argument("--all", action="store_true")
    ap.add_argument("--tier", default="quick")
    ap.add_argument("--budget", type=float)
    ap.add_argument("--target-only", action="store_true", help="with --all: run only the check each change was written for")
    a = ap.parse_args()
    if a.all:
        base = os.path.join(VERIF, "seeded")
        summary = {}
        for name in sorted(os.listdir(base)):
            meta_p = os.path.join(base, name, "meta.json")
            if not os.path.exists(meta_p):
                continue
            meta = json.load(open(meta_p))
            if meta.get("retired"):
                continue
            only = os.environ.get("SWEEP_ONLY")        # comma separated name prefixes, e.g. sub7-,sub8-
            if only and not name.startswith(tuple(only.split(","))):
                continue
            props = a.props.split(",") if a.props else ([meta["breaks"]] if a.target_only else meta["properties"])
            tag = os.environ.get("SWEEP_TAG")
            key0 = "final_target_check" if a.target_only else "final_check"
            if tag and meta.get(key0, {}).get("sweep") == tag:
                continue
            # with --runs N the first N runs of the quick tier are tried first (a prefix of the same seeded run sequence, so
            # "caught by the prefix" implies "caught by the tier"); the full tier only runs where the prefix stays clean
            res = run_one(os.path.join(base, name, "patch.diff"), None, props, a.runs, tier=a.tier, budget=a.budget)
            if a.runs and not any(r["rc"] == 1 for r in res.values()):
                res = run_one(os.path.join(base, name, "patch.diff"), None, props, None, tier=a.tier, budget=a.budget)
            caught = [p for p, r in res.items() if r["rc"] == 1]
            summary[name] = {"caught_by": caught, "results": {p: (r["rc"], r["wall"]) for p, r in res.items()}}
            key = "final_target_check" if a.target_only else "final_check"
            meta[key] = {"caught_by": caught, "rc": {p: r["rc"] for p, r in res.items()},
                                   "classes": {p: [c.split(" (minimised")[0].replace("violation class: ", "") for c in r["classes"]][:3]
                                               for p, r in res.items()},
                                   "verif_commit": subprocess.run(["git", "-C", VERIF, "rev-parse", "--short", "HEAD"],
                                                                  capture_output=True, text=True).stdout.strip(),
                                   "repo_commit": subprocess.run(["git", "-C", "/repo", "rev-parse", "--short", "HEAD"],
                                                                 capture_output=True, text=True).stdout.strip()}
            if tag:
                meta[key]["sweep"] = tag
            meta = dict(json.load(open(meta_p)), **{key: meta[key]})      # keep what others wrote meanwhile
            json.dump(meta, open(meta_p, "w"), indent=1)
            print(name, "caught by", caught, {p: r["rc"] for p, r in res.items()}, flush=True)
        missed = [n for n, s in summary.items() if not s["caught_by"]]
        print("MISSED:", missed)
        return 1 if missed else 0
    res = run_one(a.patch, a.revert, a.props.split(","), a.runs, tier=a.tier, budget=a.budget)
    print(json.dumps(res, indent=1))
    return 0


if __name__ == "__main__":
    sys.exit(main())
