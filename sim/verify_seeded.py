#!/venv/bin/python
"""For every /verif/seeded/<id>/: the demonstration must PASS on /repo and FAIL on a scratch copy with patch.diff applied.
With --suite also runs the repository's test suite on the patched copy (it must still pass)."""
import json
import os
import shutil
import subprocess
import sys
import tempfile

BASE = "/verif/seeded"
ENV = dict(os.environ, OMP_NUM_THREADS="1", PYTHONHASHSEED="0")


def demo_cmd(d, tree):
    for name in ("demo.py", "demo_test.py"):
        p = os.path.join(BASE, d, name)
        if os.path.exists(p):
            return [sys.executable, p, tree]
    raise SystemExit("no demo in " + d)


def main():
    suite = "--suite" in sys.argv
    only = [a for a in sys.argv[1:] if not a.startswith("--")]
    bad = 0
    for d in sorted(os.listdir(BASE)):
        if only and d not in only:
            continue
        if not os.path.exists(os.path.join(BASE, d, "patch.diff")):
            continue
        mp = os.path.join(BASE, d, "meta.json")
        if os.path.exists(mp) and json.load(open(mp)).get("retired"):
            continue
        tmp = tempfile.mkdtemp(prefix="seedchk_")
        try:
            src = os.path.join(tmp, "repo")
            subprocess.run(["git", "clone", "-q", "--no-hardlinks", "/repo", src], check=True)
            ap = subprocess.run(["git", "-C", src, "apply", os.path.join(BASE, d, "patch.diff")], capture_output=True, text=True)
            if ap.returncode:
                print(d, "PATCH DOES NOT APPLY", ap.stderr[:200])
                bad += 1
                continue
            ok_repo = subprocess.run(demo_cmd(d, "/repo"), capture_output=True, text=True, env=ENV, cwd=tmp)
            ok_mut = subprocess.run(demo_cmd(d, src), capture_output=True, text=True, env=ENV, cwd=tmp)
            line = "%s demo on /repo rc=%d, on patched rc=%d" % (d, ok_repo.returncode, ok_mut.returncode)
            if ok_repo.returncode != 0 or ok_mut.returncode == 0:
                bad += 1
                line += "  <-- WRONG " + (ok_repo.stderr[-300:] if ok_repo.returncode else "")
            if suite:
                r = subprocess.run([sys.executable, "-m", "pytest", "-q", "-p", "no:cacheprovider", "-x", "tests"],
                                   capture_output=True, text=True, env=ENV, cwd=src)
                tail = r.stdout.strip().splitlines()[-1] if r.stdout.strip() else ""
                line += " | suite: " + tail
            print(line, flush=True)
        finally:
            shutil.rmtree(tmp, ignore_errors=True)
    return 1 if bad else 0


if __name__ == "__main__":
    sys.exit(main())
