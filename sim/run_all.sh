#!/bin/bash
# runs every quick check in sequence (what `vp check` does); prints one status line per property
cd /verif
for p in C01 C02 C03 C04 C05 C06 C07 C08 C09 C10 C11 C12 C13 C14 C15 C16 C17 C18 C19 C20; do
  s=$(date +%s)
  out=$(env OMP_NUM_THREADS=1 PYTHONHASHSEED=0 ${VOUT:+VERIF_OUT=$VOUT} timeout 900 /venv/bin/python sim/run.py --property $p --tier ${1:-quick} 2>&1)
  rc=$?
  echo "$p rc=$rc $(( $(date +%s) - s ))s $(echo "$out" | grep -c '^KNOWN-FINDING') known | $(echo "$out" | head -1 | cut -c1-120)"
  echo "$out" | grep -E "^VIOLATION|^HARNESS" | head -5
done
