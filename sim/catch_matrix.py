#!/usr/bin/env python3
"""Prints the markdown table 'seeded change -> checks that catch it' from /verif/seeded/*/meta.json."""
import json
import os

BASE = "/verif/seeded"
print("| seeded change | written for | target check, final pass (quick tier) | other checks that caught it (intake / earlier pass) | "
      "target check when the change was delivered | final pass made at /verif commit |")
print("|---|---|---|---|---|---|")
n = ok = 0
for d in sorted(os.listdir(BASE)):
    p = os.path.join(BASE, d, "meta.json")
    if not os.path.exists(p):
        continue
    m = json.load(open(p))
    if m.get("retired"):
        print("| %s | %s | retired: %s | - | caught | - |" % (d, m.get("breaks"), m["retired"][:160] + " ..."))
        continue
    tgt = m.get("breaks", "?")
    ft = m.get("final_target_check")
    final = m.get("final_check", {})
    if ft is not None:
        t_ok = tgt in ft.get("caught_by", [])
    else:
        t_ok = tgt in final.get("caught_by", m.get("caught_by", []))
    others = sorted(set(final.get("caught_by", []) + m.get("caught_by", [])) - {tgt})
    fv = m.get("first_version_of_target_check")
    if d.startswith("revert-"):
        note = "defect of the pinned tree, found by this check (section 17)"
    elif fv is None:
        note = "?"
    else:
        note = "caught" if fv.get("caught") else "MISSED -> strengthened (see above)"
    n += 1
    ok += 1 if t_ok else 0
    at = (ft or final or {}).get("verif_commit", "?")
    print("| %s | %s | %s | %s | %s | %s |" % (d, tgt, "caught" if t_ok else "MISSED", ", ".join(others) or "-", note, at))
print()
print("%d seeded changes, %d caught by the check they were written for in the final pass." % (n, ok))
