#!/usr/bin/env python3
"""Prints the markdown table 'seeded change -> checks that catch it' from /verif/seeded/*/meta.json."""
import json
import os

BASE = "/verif/seeded"
print("| seeded change | written for | caught by (quick tier, final checks) | target check when the change was delivered |")
print("|---|---|---|---|")
for d in sorted(os.listdir(BASE)):
    p = os.path.join(BASE, d, "meta.json")
    if not os.path.exists(p):
        continue
    m = json.load(open(p))
    final = m.get("final_check", {})
    caught = final.get("caught_by", m.get("caught_by", []))
    fv = m.get("first_version_of_target_check")
    if d.startswith("revert-"):
        note = "defect of the pinned tree: found by this check (see section 17)"
    elif fv is None:
        note = "?"
    else:
        note = "caught" if fv.get("caught") else "MISSED -> strengthened (see above)"
    print("| %s | %s | %s | %s |" % (d, m.get("breaks", "?"), ", ".join(caught) or "-", note))
