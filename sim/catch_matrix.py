#!/usr/bin/env python3
"""Prints the markdown table 'seeded change -> checks that catch it' from /verif/seeded/*/meta.json."""
import json
import os

BASE = "/verif/seeded"
rows = []
for d in sorted(os.listdir(BASE)):
    p = os.path.join(BASE, d, "meta.json")
    if not os.path.exists(p):
        continue
    m = json.load(open(p))
    caught = m.get("caught_by")
    if caught is None and "final_check" in m:
        caught = m["final_check"]["caught_by"]
    final = m.get("final_check", {})
    rows.append((d, m.get("breaks", "?"), ", ".join(final.get("caught_by", caught or [])) or "-",
                 m.get("first_intake_note", ""), (m.get("commit_subject") or m.get("summary") or "")[:90]))
print("| seeded change | written for | caught by (quick tier) | note |")
print("|---|---|---|---|")
for r in rows:
    print("| %s | %s | %s | %s |" % (r[0], r[1], r[2], r[3] or r[4]))
