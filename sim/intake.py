#!/venv/bin/python
"""Intake of an independently written seeded change: confirm (a) patch applies to /repo HEAD, (b) demo passes on /repo and
fails on the patched tree, (c) the repository's test suite still passes on the patched tree, then run the quick checks of
the given properties (default: all 20) against it and record everything in /verif/seeded/<name>/meta.json.

  intake.py /tmp/mutants/C03 sub-C03-radius-sq C03 [--all]
"""
import json
import os
import shutil
import subprocess
import sys
import tempfile

sys.path.insert(0, os.path.dirname(os.path.abspath(__file__)))
import mutant  # noqa: E402

ENV = dict(os.environ, OMP_NUM_THREADS="1", PYTHONHASHSEED="0")
ALL = ["C%02d" % i for i in range(1, 21)]


def main():
    src, name, breaks = sys.argv[1], sys.argv[2], sys.argv[3]
    props = ALL if "--all" in sys.argv else [p for p in sys.argv[3].split(",")]
    dst = os.path.join("/verif/seeded", name)
    os.makedirs(dst, exist_ok=True)
    for f in ("patch.diff", "demo.py", "notes.md"):
        if os.path.exists(os.path.join(src, f)):
            shutil.copy(os.path.join(src, f), os.path.join(dst, f))
    tmp = tempfile.mkdtemp(prefix="intake_")
    meta = {"id": name, "kind": "independent sub-agent change", "breaks": breaks.split(",")[0], "properties": breaks.split(",")}
    try:
        tree = os.path.join(tmp, "repo")
        subprocess.run(["git", "clone", "-q", "--no-hardlinks", "/repo", tree], check=True)
        ap = subprocess.run(["git", "-C", tree, "apply", os.path.join(dst, "patch.diff")], capture_output=True, text=True)
        meta["patch_applies"] = ap.returncode == 0
        if ap.returncode:
            print("PATCH DOES NOT APPLY", ap.stderr)
            return 1
        changed = subprocess.run(["git", "-C", tree, "diff", "--stat"], capture_output=True, text=True).stdout
        meta["files_changed"] = changed.strip().splitlines()[:-1]
        a = subprocess.run([sys.executable, os.path.join(dst, "demo.py"), "/repo"], capture_output=True, text=True, env=ENV, cwd=tmp)
        b = subprocess.run([sys.executable, os.path.join(dst, "demo.py"), tree], capture_output=True, text=True, env=ENV, cwd=tmp)
        meta["demo_rc_unchanged"] = a.returncode
        meta["demo_rc_with_change"] = b.returncode
        print("demo: unchanged rc=%d, with change rc=%d" % (a.returncode, b.returncode))
        if a.returncode != 0:
            print(a.stderr[-800:])
        # the pickle tests of tests/test_mab.py share one file name in the cwd: run them serially, the rest under xdist
        desel = ["--deselect", "tests/test_ridge.py::RidgeRegressionTest::test_predict_ridge_scaler"]
        s1 = subprocess.run([sys.executable, "-m", "pytest", "-q", "-p", "no:cacheprovider", "-n", "8", "tests", "-k",
                             "not pickle"] + desel, capture_output=True, text=True, env=ENV, cwd=tree)
        s2 = subprocess.run([sys.executable, "-m", "pytest", "-q", "-p", "no:cacheprovider", "tests", "-k", "pickle"] + desel,
                            capture_output=True, text=True, env=ENV, cwd=tree)
        t1 = s1.stdout.strip().splitlines()[-1] if s1.stdout.strip() else "?"
        t2 = s2.stdout.strip().splitlines()[-1] if s2.stdout.strip() else "?"
        tail = "xdist part: %s | serial pickle part: %s" % (t1, t2)
        import re
        n_pass = sum(int(m) for m in re.findall(r"(\d+) passed", tail))
        meta["suite_passed_total"] = n_pass
        meta["suite_ok"] = (n_pass == 584 and "failed" not in tail and "error" not in tail)
        meta["suite_with_change"] = tail
        print("suite with change:", tail)
    finally:
        shutil.rmtree(tmp, ignore_errors=True)
    res = mutant.run_one(os.path.join(dst, "patch.diff"), None, props)
    meta["checks"] = {p: {"rc": r["rc"], "classes": [c.split(" (minimised")[0].replace("violation class: ", "") for c in r["classes"]],
                          "wall_s": r["wall"]} for p, r in res.items()}
    meta["caught_by"] = [p for p, r in res.items() if r["rc"] == 1]
    meta["harness_errors"] = [p for p, r in res.items() if r["rc"] == 2]
    meta["ran"] = "sim/intake.py: demo on /repo and on a scratch clone with the patch; pytest tests on the scratch clone; " \
                  "sim/run.py --property <p> --tier quick with MABWISER_SRC=<scratch clone> for p in " + ",".join(props)
    notes = os.path.join(dst, "notes.md")
    if os.path.exists(notes):
        meta["needs_to_manifest"] = open(notes).read()[:1500]
    json.dump(meta, open(os.path.join(dst, "meta.json"), "w"), indent=1)
    print("caught by:", meta["caught_by"], "harness errors:", meta["harness_errors"])
    for p, r in res.items():
        if r["rc"] == 2:
            print(p, r["tail"])
    return 0


if __name__ == "__main__":
    sys.exit(main())
