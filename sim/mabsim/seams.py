"""Seams: everything nondeterministic or machine dependent that mabwiser touches is swapped here, from outside.

No change to /repo is needed: the seams are module attributes (Parallel, mp), one class attribute
(BaseMAB._partition_contexts) and, for the Simulator, one instance attribute (_chunk_size, see simworld.py).
"""
import logging
import threading

import numpy as np

from . import kernel
from .simparallel import SimParallel, _workers

_installed = False
_real_partition = None


class _MPShim:
    """Replaces the `mp` name inside mabwiser.base_mab: the machine size is a scheduler decision."""

    @staticmethod
    def cpu_count():
        s = kernel.cur().sched
        return s.cores if s is not None else 16


def _check_cover(n_contexts, res, ctx):
    """Invariant monitor on the REAL partition function: ordered exact cover, len(sizes) == n_jobs <= n."""
    try:
        n_jobs, sizes, starts = res
        ok = (isinstance(n_jobs, (int, np.integer)) and n_jobs >= 1 and len(sizes) == n_jobs
              and len(starts) == n_jobs + 1 and starts[0] == 0 and starts[-1] == n_contexts
              and all(int(s) >= 1 for s in sizes)
              and all(starts[i + 1] - starts[i] == sizes[i] for i in range(n_jobs))
              and n_jobs <= n_contexts)
    except Exception:
        ok = False
    if not ok:
        ctx.violate("partition-cover", ctx.stats.get("ops", 0), {"n": n_contexts, "res": repr(res)})
    return ok


def _partition_seam(self, n_contexts):
    ctx = kernel.cur()
    res = _real_partition(self, n_contexts)
    ctx.fired("partition.real_calls")
    if not _check_cover(n_contexts, res, ctx):
        return res
    sched = ctx.sched
    if (sched is None or sched.canonical or sched.partition != "random" or res[0] <= 1
            or threading.get_ident() in _workers):
        return res
    # any ordered exact cover with non-empty contiguous chunks (F-PART)
    rnd = sched.rnd
    k = rnd.randint(1, n_contexts)
    cuts = sorted(rnd.sample(range(1, n_contexts), k - 1)) if k > 1 else []
    starts = [0] + cuts + [n_contexts]
    sizes = [starts[i + 1] - starts[i] for i in range(k)]
    ctx.ev("partition", n_contexts, sizes)
    ctx.fired("fault.partition_random")
    if sizes != list(res[1]):
        ctx.fired("fault.partition_differs_from_library")
    return k, sizes, starts


_originals = {}


def uninstall():
    """Put the real joblib.Parallel / multiprocessing / partition function back (stub-fidelity self-test only)."""
    global _installed
    if not _installed:
        return
    import mabwiser.approximate
    import mabwiser.base_mab
    import mabwiser.simulator
    mabwiser.base_mab.Parallel = _originals["Parallel"]
    mabwiser.approximate.Parallel = _originals["Parallel"]
    mabwiser.simulator.Parallel = _originals["Parallel"]
    mabwiser.base_mab.mp = _originals["mp"]
    mabwiser.base_mab.BaseMAB._partition_contexts = _real_partition
    _installed = False


def install():
    global _installed, _real_partition
    if _installed:
        return
    import mabwiser.approximate
    import mabwiser.base_mab
    import mabwiser.simulator
    _originals.setdefault("Parallel", mabwiser.base_mab.Parallel)
    _originals.setdefault("mp", mabwiser.base_mab.mp)
    mabwiser.base_mab.Parallel = SimParallel
    mabwiser.approximate.Parallel = SimParallel
    mabwiser.simulator.Parallel = SimParallel
    mabwiser.base_mab.mp = _MPShim
    if _real_partition is None:
        _real_partition = mabwiser.base_mab.BaseMAB._partition_contexts
    mabwiser.base_mab.BaseMAB._partition_contexts = _partition_seam
    logging.disable(logging.CRITICAL)
    _installed = True


def real_partition():
    return _real_partition


def reset_shared_defaults():
    """Process-global mutable defaults of mabwiser that would leak state between simulated runs."""
    from mabwiser.mab import NeighborhoodPolicy
    d = NeighborhoodPolicy.TreeBandit._field_defaults.get("tree_parameters")
    if isinstance(d, dict):
        d.clear()
