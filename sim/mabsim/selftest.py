"""Simulator self-tests (DESIGN section 11): determinism of (case -> event log digest)."""
import os
import subprocess
import sys

from . import driver

ALL = ["C%02d" % i for i in range(1, 21)]


def digests(prop, tier, seed, runs, reverse=False):
    mod = driver.load_mod(prop)
    out = {}
    idx = list(range(runs))
    if reverse:
        idx.reverse()
    for i in idx:
        case = driver.case_for(mod, seed, tier, i)
        r = driver.exec_case(mod, case)
        out[i] = r["digest"] + ":" + ",".join(sorted(v["cls"] for v in r["violations"]))
    return out


def print_digests(prop, tier, seed, runs):
    for i, d in sorted(digests(prop, tier, seed, runs).items()):
        print("DIGEST %d %s" % (i, d))
    return 0


def _fresh(prop, tier, seed, runs, hashseed):
    env = dict(os.environ)
    env["PYTHONHASHSEED"] = str(hashseed)
    env["VERIF_SEED"] = str(seed)
    p = subprocess.run([sys.executable, driver.RUN_PY, "--digests", "--property", prop, "--tier", tier,
                        "--runs", str(runs)], capture_output=True, text=True, env=env, timeout=3600)
    out = {}
    for line in p.stdout.splitlines():
        if line.startswith("DIGEST "):
            _, i, d = line.split(" ", 2)
            out[int(i)] = d
    if len(out) != runs:
        raise RuntimeError("fresh interpreter failed: " + p.stderr[-2000:])
    return out


def main(which, prop, seed, runs):
    props = [prop] if prop else [p for p in ALL if os.path.exists(
        os.path.join(os.path.dirname(__file__), "props", p.lower() + ".py"))]
    runs = runs or 60
    bad = 0
    for p in props:
        a = digests(p, "quick", seed, runs)                 # cold, ascending order
        b = digests(p, "quick", seed, runs, reverse=True)   # warm, other order (leaks of process state show here)
        c = _fresh(p, "quick", seed, runs, 3)               # fresh interpreter, another hash seed
        d = _fresh(p, "quick", seed, runs, "random")
        diffs = [i for i in a if not (a[i] == b[i] == c[i] == d[i])]
        print("selftest determinism %s: %d runs x 4 executions, %d mismatching %s" % (p, runs, len(diffs), diffs[:10]))
        bad += len(diffs)
    return 2 if bad else 0
