"""Simulator self-tests (DESIGN section 11): determinism of (case -> event log digest)."""
import os
import subprocess
import sys

from . import driver

ALL = ["C%02d" % i for i in range(1, 21)]


def digests(prop, tier, seed, runs, reverse=False):
    mod = driver.load_mod(prop)
    out = {}
    idx = list(range(runs))
    if reverse:
        idx.reverse()
    for i in idx:
        case = driver.case_for(mod, seed, tier, i)
        r = driver.exec_case(mod, case)
        out[i] = r["digest"] + ":" + ",".join(sorted(v["cls"] for v in r["violations"]))
    return out


def print_digests(prop, tier, seed, runs):
    for i, d in sorted(digests(prop, tier, seed, runs).items()):
        print("DIGEST %d %s" % (i, d))
    return 0


def _fresh(prop, tier, seed, runs, hashseed):
    env = dict(os.environ)
    env["PYTHONHASHSEED"] = str(hashseed)
    env["VERIF_SEED"] = str(seed)
    p = subprocess.run([sys.executable, driver.RUN_PY, "--digests", "--property", prop, "--tier", tier,
                        "--runs", str(runs)], capture_output=True, text=True, env=env, timeout=3600)
    out = {}
    for line in p.stdout.splitlines():
        if line.startswith("DIGEST "):
            _, i, d = line.split(" ", 2)
            out[int(i)] = d
    if len(out) != runs:
        raise RuntimeError("fresh interpreter failed: " + p.stderr[-2000:])
    return out


def fidelity(seed, runs):
    """Stub fidelity (DESIGN 11): for configurations whose results do not depend on the schedule, SimParallel under drawn
    schedules must return exactly what REAL joblib (threading, loky, multiprocessing) returns."""
    import random
    from . import gen, kernel, seams
    from .world import Session, is_contextual
    rnd = random.Random(kernel.H("fidelity", seed))
    bad = 0
    n = runs or 24
    for i in range(n):
        lp = gen.gen_lp(rnd)
        if lp[0] == "EpsilonGreedy" and lp[1]["epsilon"] > 0 and rnd.random() < 0.5:
            lp[1]["epsilon"] = 0
        kind, arms, spare = gen.gen_arms(rnd, hi=4)
        np_ = gen.gen_np(rnd, lp[0], len(arms), allow_probs=False) if rnd.random() < 0.8 else None
        if np_ and np_[0] == "TreeBandit" and not (lp[0] == "UCB1" or (lp[0] == "EpsilonGreedy" and lp[1]["epsilon"] == 0)):
            np_ = None      # schedule dependent by the known finding of C05
        backend = rnd.choice(["threading", "loky", "multiprocessing", None])
        cfg = {"arms": arms, "lp": lp, "np": np_, "seed": rnd.randrange(2 ** 20), "n_jobs": rnd.choice([2, 3]),
               "backend": backend}
        ctxl = is_contextual(cfg)
        d = rnd.randint(1, 3)
        rk = gen.reward_kind_for(rnd, cfg, "exact")
        need = 6
        ops = [{"op": "fit", "rows": gen.gen_rows(rnd, arms, need + rnd.randint(2, 10), d, "exact", rk, ctxl)},
               {"op": "partial_fit", "rows": gen.gen_rows(rnd, arms, rnd.randint(1, 8), d, "exact", rk, ctxl)}]
        Q = gen.gen_Q(rnd, rnd.randint(2, 7), d, "exact") if ctxl else None
        ops += [{"op": "expect", "Q": Q}, {"op": "predict", "Q": Q}]
        outs = {}
        for mode in ("real", "sim"):
            if mode == "real":
                seams.uninstall()
            else:
                seams.install()
            kernel.set_ctx(kernel.Ctx(record=False))
            s = Session(cfg)
            res = []
            for op in ops:
                r = s.apply(op, sched=kernel.Sched.draw(rnd) if mode == "sim" else None)
                res.append([r[0], kernel.canon(r[1])])
            outs[mode] = res
        seams.install()
        ok = outs["real"] == outs["sim"]
        bad += 0 if ok else 1
        print("fidelity %2d %-16s %-11s backend=%-15s n_jobs=%d %s" % (i, lp[0], np_[0] if np_ else "-", backend,
                                                                       cfg["n_jobs"], "equal" if ok else "DIFFERENT"))
    print("selftest fidelity: %d configurations, %d differ" % (n, bad))
    return 2 if bad else 0


def main(which, prop, seed, runs):
    if which == "fidelity":
        return fidelity(seed, runs)
    props = [prop] if prop else [p for p in ALL if os.path.exists(
        os.path.join(os.path.dirname(__file__), "props", p.lower() + ".py"))]
    runs = runs or 60
    bad = 0
    for p in props:
        a = digests(p, "quick", seed, runs)                 # cold, ascending order
        b = digests(p, "quick", seed, runs, reverse=True)   # warm, other order (leaks of process state show here)
        c = _fresh(p, "quick", seed, runs, 3)               # fresh interpreter, another hash seed
        d = _fresh(p, "quick", seed, runs, "random")
        diffs = [i for i in a if not (a[i] == b[i] == c[i] == d[i])]
        print("selftest determinism %s: %d runs x 4 executions, %d mismatching %s" % (p, runs, len(diffs), diffs[:10]))
        bad += len(diffs)
    return 2 if bad else 0
