"""Swarm generators: every run draws its own configuration, data regime, workload mix and fault mix."""
from . import kernel
from .world import CLUSTER_LPS, CONTEXT_FREE, LINEAR, TREE_LPS

TIER_SCALE = 1      # set by the driver: 1 for quick, 2 for thorough (longer histories in half of the runs)

ARM_POOLS = {
    # zero, negative and large labels on purpose (a label is a key, never a position, a truth value or a small number)
    "int": [1, 2, 3, 4, 5, 6, 7, 8, 9, 0, -1, -4, 1000003],
    # labels of unequal length on purpose (fixed-width numpy string dtypes truncate silently: 'Arm1' vs 'Arm10')
    "str": ["a", "bb", "ccc", "d", "ee", "f", "gggg", "h", "ii", "10", "2", "B", "zzz"],
    "float": [0.5, 1.5, 2.5, 3.5, 4.5, 5.5, 6.5, 7.5, 8.5, -1.5, 0.25, 100000.5, 12.0],
}
METRICS_EXACT = ["cityblock", "chebyshev", "sqeuclidean", "euclidean"]


def gen_arms(rnd, kinds=("int", "str", "float"), lo=2, hi=6):
    kind = rnd.choice(list(kinds))
    pool = list(ARM_POOLS[kind])
    k = rnd.randint(lo, hi)
    arms = rnd.sample(pool, k)
    spare = [a for a in pool if a not in arms]
    return kind, arms, spare


def gen_lp(rnd, name=None, names=None, binarizer=False, regime="exact", scale=False):
    if name is None:
        name = rnd.choice(list(names or (CONTEXT_FREE + LINEAR)))
    if name == "EpsilonGreedy":
        kw = {"epsilon": rnd.choice([0, 0, 0.1, 0.3, 0.5, 1.0])}
    elif name == "UCB1":
        kw = {"alpha": rnd.choice([0, 0.5, 1, 1.25, 2, 10])}
    elif name == "Softmax":
        kw = {"tau": rnd.choice([0.25, 0.5, 1, 2, 8])}
    elif name in ("Popularity", "Random"):
        kw = {}
    elif name == "ThompsonSampling":
        kw = {}
        if binarizer:
            kw["binarizer"] = rnd.choice(["gt10", "arm_thr", "lt_arm", "ge5_int"])
    elif name == "LinGreedy":
        kw = {"epsilon": rnd.choice([0, 0, 0.2, 0.5]), "l2_lambda": rnd.choice([0.1, 0.5, 1, 2, 10])}
    elif name == "LinTS":
        kw = {"alpha": rnd.choice([1e-9, 0.25, 1, 2]), "l2_lambda": rnd.choice([0.1, 0.5, 1, 2, 10])}
    elif name == "LinUCB":
        kw = {"alpha": rnd.choice([0, 0.5, 1, 1.5]), "l2_lambda": rnd.choice([0.1, 0.5, 1, 2, 10])}
    else:
        raise kernel.HarnessError(name)
    if scale and name in LINEAR and rnd.random() < 0.25:
        kw["scale"] = True
    return [name, kw]


def det_lp(rnd, names=("EpsilonGreedy", "UCB1", "LinUCB", "LinGreedy")):
    """A learning policy whose expectations are deterministic."""
    lp = gen_lp(rnd, rnd.choice(list(names)))
    if "epsilon" in lp[1]:
        lp[1]["epsilon"] = 0
    return lp


def gen_np(rnd, lp_name, n_arms, name=None, names=("Radius", "KNearest", "LSHNearest", "Clusters", "TreeBandit"),
           allow_probs=True):
    """Neighbourhood policy compatible with the learning policy (None if no compatible one among names)."""
    cands = []
    for n in names:
        if n == "TreeBandit" and lp_name not in TREE_LPS:
            continue
        if n == "Clusters" and lp_name not in CLUSTER_LPS:
            continue
        cands.append(n)
    if name is None:
        if not cands:
            return None
        name = rnd.choice(cands)
    if name == "Radius":
        kw = {"radius": rnd.choice([1, 2, 3, 4, 6, 9]), "metric": rnd.choice(METRICS_EXACT)}
        if allow_probs and rnd.random() < 0.3:
            kw["no_nhood_prob_of_arm"] = gen_probs(rnd, n_arms)
    elif name == "KNearest":
        kw = {"k": rnd.randint(1, 5), "metric": rnd.choice(METRICS_EXACT)}
    elif name == "LSHNearest":
        kw = {"n_dimensions": 33 if rnd.random() < 0.04 else rnd.randint(1, 4), "n_tables": rnd.randint(1, 3)}
        if allow_probs and rnd.random() < 0.3:
            kw["no_nhood_prob_of_arm"] = gen_probs(rnd, n_arms)
    elif name == "Clusters":
        kw = {"n_clusters": rnd.randint(2, 4), "is_minibatch": rnd.random() < 0.3}
    elif name == "TreeBandit":
        tp = {}
        if rnd.random() < 0.6:
            tp["max_depth"] = rnd.randint(1, 4)
        if rnd.random() < 0.4:
            tp["min_samples_leaf"] = rnd.randint(1, 3)
        if rnd.random() < 0.3:
            tp["max_leaf_nodes"] = rnd.randint(2, 5)
        kw = {"tree_parameters": tp}
    else:
        raise kernel.HarnessError(name)
    return [name, kw]


def gen_probs(rnd, k):
    """Probability list with exact dyadic entries summing to 1, some zero."""
    w = [rnd.choice([0, 0, 1, 1, 2]) for _ in range(k)]
    if sum(w) == 0:
        w[rnd.randrange(k)] = 1
    # scale to eighths exactly
    tot = sum(w)
    p = [x / tot for x in w]
    p[-1] = 1.0 - sum(p[:-1]) if p[-1] else p[-1]
    if abs(sum(p) - 1.0) > 1e-12 or min(p) < 0:
        p = [0.0] * k
        p[0] = 1.0
    return p


def gen_cfg(rnd, lp_names=None, np_names=None, with_np=None, arm_kinds=("int", "str", "float"), binarizer=False,
            lp=None, allow_probs=True, arms_lo=2, arms_hi=6, scale=False):
    if TIER_SCALE > 1 and rnd.random() < 0.3:
        arms_hi = min(arms_hi + 2, 8)               # thorough tier: more arms = more shared-memory fit tasks
    kind, arms, spare = gen_arms(rnd, arm_kinds, arms_lo, arms_hi)
    lp = lp or gen_lp(rnd, names=lp_names, binarizer=binarizer, scale=scale)
    np_ = None
    if with_np is None:
        with_np = rnd.random() < 0.6
    if with_np:
        np_ = gen_np(rnd, lp[0], len(arms), names=np_names or ("Radius", "KNearest", "LSHNearest", "Clusters",
                                                                "TreeBandit"), allow_probs=allow_probs)
    cfg = {"arms": arms, "lp": lp, "np": np_, "seed": rnd.randrange(0, 2 ** 20), "n_jobs": 1, "backend": None}
    return cfg, spare


def reward_kind_for(rnd, cfg, regime):
    name = cfg["lp"][0]
    if name == "ThompsonSampling":
        return "anyint" if cfg["lp"][1].get("binarizer") else "binary"
    if name == "Popularity":
        return rnd.choice(["binary", "nonneg"]) if regime == "exact" else "nonneg_real"
    if regime == "exact":
        return rnd.choice(["binary", "smallint", "dyadic"])
    return "real"


def gen_reward(rnd, kind):
    if kind == "binary":
        return rnd.randint(0, 1)
    if kind == "smallint":
        return rnd.randint(-8, 8)
    if kind == "anyint":
        return rnd.randint(0, 14)
    if kind == "nonneg":
        return rnd.randint(0, 8)
    if kind == "dyadic":
        return rnd.randint(-64, 64) / 8.0
    if kind == "nonneg_real":
        return round(rnd.uniform(0, 1000), 6)
    return round(rnd.uniform(-1000, 1000), 6)


def gen_ctx(rnd, d, regime):
    if regime == "exact":
        return [rnd.randint(-3, 3) for _ in range(d)]
    return [round(rnd.uniform(-10, 10), 6) for _ in range(d)]


def gen_rows(rnd, arms, n, d, regime, rkind, ctxl, omit=None):
    pool = [a for a in arms if not omit or a not in omit] or list(arms)
    rows = []
    for _ in range(n):
        rows.append([rnd.choice(pool), gen_reward(rnd, rkind), gen_ctx(rnd, d, regime) if ctxl else None])
    return rows


def gen_Q(rnd, m, d, regime, stored=None):
    Q = []
    for _ in range(m):
        if stored and rnd.random() < 0.35:
            Q.append(list(rnd.choice(stored)))
        else:
            Q.append(gen_ctx(rnd, d, regime))
    return Q


def some_omitted(rnd, arms):
    if rnd.random() < 0.4 and len(arms) > 1:
        return set(rnd.sample(list(arms), rnd.randint(1, len(arms) - 1)))
    return None


def gen_history(rnd, cfg, spare, d, regime, n_ops, arm_changes=True, warm=False, refit=0.1, queries=True,
                max_rows=24, max_m=7, first_rows=None, rkind=None, binarizers=False, sched=None, q_none=True):
    """A generic valid history: fit first, then a drawn mix of partial_fit / queries / arm changes / refits.
    `sched` is a callable(rnd, op) -> schedule record or None, attached to each operation."""
    from .world import is_contextual
    if TIER_SCALE > 1 and rnd.random() < 0.5:
        n_ops = min(30, n_ops * TIER_SCALE)
    if TIER_SCALE > 1 and rnd.random() < 0.3:      # thorough tier: larger batches and query blocks in some runs
        max_rows, max_m = max_rows * 2, max_m * 2
    ctxl = is_contextual(cfg)
    arms = list(cfg["arms"])
    spare = list(spare)
    rkind = rkind or reward_kind_for(rnd, cfg, regime)
    npol = cfg.get("np")
    need = 1
    if npol and npol[0] == "KNearest":
        need = npol[1].get("k", 1)
    if npol and npol[0] == "Clusters":
        need = npol[1].get("n_clusters", 2) + 1
    stored = []
    ops = []

    def train(kind, n=None, lo=0):
        n = n if n is not None else rnd.randint(lo, max_rows)
        if ctxl:
            n = max(n, 1)
        rows = gen_rows(rnd, arms, n, d, regime, rkind, ctxl, omit=some_omitted(rnd, arms))
        if kind == "fit":
            del stored[:]
        stored.extend(r[2] for r in rows if ctxl)
        return {"op": kind, "rows": rows}

    def query(kind):
        if ctxl:
            Q = gen_Q(rnd, rnd.randint(1, max_m), d, regime, stored)
        else:
            Q = None if (q_none and rnd.random() < 0.5) else gen_Q(rnd, rnd.randint(1, max_m), rnd.randint(1, 3), regime)
        return {"op": kind, "Q": Q}

    ops.append(train("fit", first_rows if first_rows is not None else max(need + 2, rnd.randint(4, max_rows))))
    while len(ops) < n_ops:
        u = rnd.random()
        if u < 0.30:
            op = train("partial_fit")
        elif u < 0.30 + refit:
            op = train("fit", max(need + 1, rnd.randint(1, max_rows)))
        elif arm_changes and u < 0.50 and spare and len(arms) < 7:
            a = spare.pop(rnd.randrange(len(spare)))
            arms.append(a)
            op = {"op": "add_arm", "arm": a}
            if binarizers and cfg["lp"][0] == "ThompsonSampling" and cfg["lp"][1].get("binarizer") and rnd.random() < 0.6:
                op["binarizer"] = rnd.choice(["gt10", "arm_thr", "lt_arm", "ge5_int"])
        elif arm_changes and u < 0.58 and len(arms) > 2:
            a = arms.pop(rnd.randrange(len(arms)))
            spare.append(a)
            op = {"op": "remove_arm", "arm": a}
        elif warm and u < 0.66:
            op = gen_warm(rnd, arms)
        elif queries:
            op = query(rnd.choice(["predict", "expect"]))
        else:
            op = train("partial_fit")
        ops.append(op)
    if sched:
        for op in ops:
            s = sched(rnd, op)
            if s is not None:
                op["sched"] = s
    return ops


def gen_warm(rnd, arms, dim=None):
    dim = dim or rnd.randint(1, 3)
    feats = []
    for a in arms:
        u = rnd.random()
        if u < 0.15:
            f = [0] * dim
        elif u < 0.35 and feats:
            f = list(rnd.choice(feats)[1])
        else:
            f = [rnd.randint(-3, 3) for _ in range(dim)]
        feats.append([a, f])
    return {"op": "warm_start", "features": feats, "default": [rnd.randint(-3, 3) for _ in range(dim)],
            "q": rnd.choice([0.0, 0.25, 0.5, 0.75, 1.0, round(rnd.random(), 3)])}
