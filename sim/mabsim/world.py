"""World model: building bandits from JSON configs, the operation vocabulary and its (total) interpreter,
observation, parameter views, random-stream synchronisation, structural comparison."""
import copy
import math
import pickle
import warnings

import numpy as np
import pandas as pd

from . import kernel
from .binarizers import BINARIZERS, NAME_OF

warnings.filterwarnings("ignore")

from mabwiser.mab import MAB, LearningPolicy, NeighborhoodPolicy  # noqa: E402
from mabwiser.approximate import _LSHNearest  # noqa: E402
from mabwiser.clusters import _Clusters  # noqa: E402
from mabwiser.greedy import _EpsilonGreedy  # noqa: E402
from mabwiser.linear import _Linear  # noqa: E402
from mabwiser.neighbors import _KNearest, _Neighbors, _Radius  # noqa: E402
from mabwiser.popularity import _Popularity  # noqa: E402
from mabwiser.rand import _Random  # noqa: E402
from mabwiser.softmax import _Softmax  # noqa: E402
from mabwiser.thompson import _ThompsonSampling  # noqa: E402
from mabwiser.treebandit import _TreeBandit  # noqa: E402
from mabwiser.ucb import _UCB1  # noqa: E402

LINEAR = ("LinGreedy", "LinTS", "LinUCB")
CONTEXT_FREE = ("EpsilonGreedy", "UCB1", "Softmax", "Popularity", "ThompsonSampling", "Random")
NEIGHBORHOODS = ("Radius", "KNearest", "LSHNearest", "Clusters", "TreeBandit")
TREE_LPS = ("EpsilonGreedy", "UCB1", "ThompsonSampling")
CLUSTER_LPS = ("EpsilonGreedy", "UCB1", "Softmax", "ThompsonSampling", "Random") + LINEAR  # Popularity excluded


# --------------------------------------------------------------------------------------------------
# construction
# --------------------------------------------------------------------------------------------------

def make_lp(spec):
    name, kw = spec
    kw = dict(kw)
    if name == "ThompsonSampling" and kw.get("binarizer"):
        kw["binarizer"] = BINARIZERS[kw["binarizer"]]
    return getattr(LearningPolicy, name)(**kw)


def make_np(spec):
    if spec is None:
        return None
    name, kw = spec
    kw = copy.deepcopy(dict(kw))
    return getattr(NeighborhoodPolicy, name)(**kw)


def make_mab(cfg, **over):
    c = dict(cfg)
    c.update(over)
    return MAB(list(c["arms"]), make_lp(c["lp"]), make_np(c.get("np")), seed=c.get("seed", 123456),
               n_jobs=c.get("n_jobs", 1), backend=c.get("backend"))


def is_contextual(cfg):
    return cfg.get("np") is not None or cfg["lp"][0] in LINEAR


def lp_class(cfg):
    """Learning-policy class for violation signatures (EpsilonGreedy split by eps>0, as known findings need)."""
    name, kw = cfg["lp"]
    if name == "EpsilonGreedy":
        return "EpsilonGreedy>0" if kw.get("epsilon", 0.1) > 0 else "EpsilonGreedy0"
    return name


def np_class(cfg):
    return cfg["np"][0] if cfg.get("np") else "None"


def randomised(cfg):
    """Does a query consume / depend on random draws (given a non-empty neighbourhood)?"""
    name, kw = cfg["lp"]
    if name in ("Softmax", "Popularity", "ThompsonSampling", "Random", "LinTS"):
        return True
    if name in ("EpsilonGreedy", "LinGreedy"):
        return kw.get("epsilon", 0.1) > 0
    return False


# --------------------------------------------------------------------------------------------------
# containers (C18) -- how one operation's data is delivered
# --------------------------------------------------------------------------------------------------

CONTAINERS = ("list", "ndarray", "ndarray_F", "ndarray_slice", "ndarray_T", "ndarray_float", "ndarray_f32", "series_frame",
              "frame_F", "series_auto", "ndarray_i8", "ndarray_i16", "ndarray_u8", "series_idx")
NARROW = {"ndarray_i8": np.int8, "ndarray_i16": np.int16, "ndarray_u8": np.uint8}


def _narrow(arr, kind):
    """Integer data delivered in a narrow integer dtype (only when every value is representable in it)."""
    if arr.dtype.kind in "iu" and arr.size:
        info = np.iinfo(NARROW[kind])
        if arr.min() >= info.min and arr.max() <= info.max:
            return arr.astype(NARROW[kind])
    return arr


def _vec(values, kind, is_reward):
    if kind == "list":
        return list(values)
    arr = np.asarray(values)
    if kind in NARROW:
        return _narrow(arr, kind)
    if kind == "ndarray_float" and is_reward and arr.dtype.kind in "iu":
        arr = arr.astype(float)
    if kind in ("series_frame", "frame_F", "series_auto"):
        return pd.Series(arr)
    if kind == "series_idx":
        # a Series cut out of a larger frame: its index labels do not contain 0 and run backwards
        idx = [100 + 3 * (len(arr) - 1 - i) for i in range(len(arr))]
        return pd.Series(arr, index=idx, name="col")
    if kind == "ndarray_slice":
        big = np.empty(2 * len(arr), dtype=arr.dtype)
        big[::2] = arr
        if len(arr):
            big[1::2] = arr[::-1]
        return big[::2]
    return arr


def _mat(rows, kind):
    if rows is None:
        return None
    if kind == "list":
        return [list(r) for r in rows]
    arr = np.asarray(rows)
    if arr.ndim != 2:
        return [list(r) for r in rows]
    if kind in NARROW:
        return _narrow(arr, kind)
    if kind == "ndarray_float" and arr.dtype.kind in "iu":
        arr = arr.astype(float)
    if kind == "ndarray_F":
        return np.asfortranarray(arr)
    if kind == "ndarray_f32":
        # single precision contexts (the generated values - small integers and half-integers - are exact in float32)
        return arr.astype(np.float32)
    if kind == "ndarray_T":
        return np.ascontiguousarray(arr.T).T      # transposed view of a C array (neither copy nor C-contiguous)
    if kind == "series_auto":
        # Series disambiguation: one row with d features, or n rows with a single feature
        if arr.shape[0] == 1:
            return pd.Series(arr[0])
        if arr.shape[1] == 1:
            return pd.Series(arr[:, 0])
        return pd.DataFrame(arr)
    if kind == "ndarray_slice":
        big = np.zeros((arr.shape[0], 2 * arr.shape[1]), dtype=arr.dtype)
        big[:, ::2] = arr
        big[:, 1::2] = 7
        return big[:, ::2]
    if kind == "series_frame":
        return pd.DataFrame(arr)
    if kind == "series_idx":
        idx = [100 + 3 * (arr.shape[0] - 1 - i) for i in range(arr.shape[0])]
        return pd.DataFrame(arr, index=idx, columns=["f%d" % (arr.shape[1] - j) for j in range(arr.shape[1])])
    if kind == "frame_F":
        return pd.DataFrame(np.asfortranarray(arr))
    return arr


# --------------------------------------------------------------------------------------------------
# sessions: a real bandit plus the bookkeeping that makes the operation interpreter total
# --------------------------------------------------------------------------------------------------

class Session:
    def __init__(self, cfg, mab=None, **over):
        self.cfg = dict(cfg)
        self.cfg.update(over)
        self.mab = mab if mab is not None else make_mab(self.cfg)
        self.ctxl = is_contextual(self.cfg)
        self.fitted = False
        self.d = None            # feature count of the current fit epoch
        self.n_rows = 0          # stored rows (neighbourhood policies)
        self.has_binarizer = bool(self.cfg["lp"][0] == "ThompsonSampling" and self.cfg["lp"][1].get("binarizer"))
        self._pool = {}          # container "ndarray_reuse": the caller's buffers, by (role, shape, dtype)

    def _reuse(self, role, obj):
        """F-CALLER (buffer reuse): a caller that keeps ONE container per role and overwrites it in place with the data of
        the next call, as pre-allocating callers do. The same OBJECT therefore arrives with other contents."""
        if isinstance(obj, np.ndarray):
            key = (role, "nd", obj.shape, obj.dtype.str, obj.flags["C_CONTIGUOUS"])
        elif isinstance(obj, list):
            key = (role, "list", len(obj))
        elif isinstance(obj, pd.DataFrame):
            key = (role, "df", obj.shape, str(obj.values.dtype))
        else:
            return obj
        buf = self._pool.get(key)
        if buf is None:
            self._pool[key] = obj
            return obj
        if isinstance(obj, np.ndarray):
            np.copyto(buf, obj)
        elif isinstance(obj, list):
            buf[:] = obj
        else:
            buf.iloc[:, :] = obj.values
        kernel.cur().fired("fault.caller_reuses_buffer")
        return buf

    # ---- copies / restarts (F-RESTART)
    def clone(self, how="deepcopy"):
        if how == "deepcopy":
            m = copy.deepcopy(self.mab)
        else:
            proto = int(how[1:])
            m = pickle.loads(pickle.dumps(self.mab, protocol=proto))
        s = Session(self.cfg, mab=m)
        s.fitted, s.d, s.n_rows, s.has_binarizer = self.fitted, self.d, self.n_rows, self.has_binarizer
        return s

    @property
    def arms(self):
        return self.mab.arms

    def min_rows(self):
        npol = self.cfg.get("np")
        if not npol:
            return 0
        if npol[0] == "KNearest":
            return npol[1].get("k", 1)
        if npol[0] == "Clusters":
            return npol[1].get("n_clusters", 2)
        return 1

    # ---- the interpreter
    def valid_rows(self, rows):
        arms = self.mab.arms
        return [r for r in rows if r[0] in arms]

    def can_train(self, op, rows):
        if self.ctxl:
            if not rows:
                return False
            d = len(rows[0][2])
            if op == "partial_fit" and self.fitted and d != self.d:
                return False
            if (op == "fit" or not self.fitted) and len(rows) < self.min_rows():
                return False
        return True

    def can_query(self, Q):
        if not self.fitted:
            return False
        if self.ctxl:
            if not Q:
                return False
            if len(Q[0]) != self.d:
                return False
            if self.n_rows < self.min_rows():
                return False
        return True

    def apply(self, op, container="list", sched=None, hook=None):
        """Execute one operation. Returns ('skip',None) | ('ok', value) | ('exc', ExceptionTypeName).
        hook(phase, objs) is called with the caller-owned argument objects before and after the call."""
        objs = []
        ctx = kernel.cur()
        kind = op["op"]
        mab = self.mab
        call = None
        post = None
        if kind in ("fit", "partial_fit"):
            rows = self.valid_rows(op["rows"])
            if not self.can_train(kind, rows):
                return ("skip", None)
            reuse = container.startswith("reuse:")
            container = container[6:] if reuse else container
            dec = _vec([r[0] for r in rows], container, False)
            rew = _vec([r[1] for r in rows], container, True)
            X = _mat([r[2] for r in rows], container) if self.ctxl else None
            if reuse:
                dec, rew, X = self._reuse("dec", dec), self._reuse("rew", rew), self._reuse("X", X)
            fn = mab.fit if kind == "fit" else mab.partial_fit
            objs = [dec, rew, X]
            call = (lambda: fn(dec, rew, X)) if self.ctxl else (lambda: fn(dec, rew))
            acts_as_fit = kind == "fit" or not self.fitted

            def post():
                if acts_as_fit:
                    self.n_rows = len(rows)
                    self.d = len(rows[0][2]) if self.ctxl else None
                else:
                    self.n_rows += len(rows)
                self.fitted = True
        elif kind in ("predict", "expect"):
            Q = op.get("Q")
            if self.ctxl or Q is not None:
                if self.ctxl and not self.can_query(Q):
                    return ("skip", None)
            if not self.fitted:
                return ("skip", None)
            reuse = container.startswith("reuse:")
            container = container[6:] if reuse else container
            Xq = _mat(Q, container)
            if reuse:
                Xq = self._reuse("Q", Xq)
            objs = [Xq]
            fn = mab.predict if kind == "predict" else mab.predict_expectations
            call = (lambda: fn(Xq)) if Q is not None else (lambda: fn())
        elif kind == "add_arm":
            if op["arm"] in mab.arms:
                return ("skip", None)
            b = op.get("binarizer")
            if b and self.cfg["lp"][0] != "ThompsonSampling":
                b = None
            call = (lambda: mab.add_arm(op["arm"], BINARIZERS[b])) if b else (lambda: mab.add_arm(op["arm"]))
            if b:
                def post():
                    self.has_binarizer = True
        elif kind == "remove_arm":
            if op["arm"] not in mab.arms or len(mab.arms) <= 2:
                return ("skip", None)
            call = lambda: mab.remove_arm(op["arm"])   # noqa: E731
        elif kind == "warm_start":
            feats = {a: list(f) for a, f in op["features"]}
            for a in mab.arms:
                if a not in feats:
                    feats[a] = list(op["default"])
            feats = {a: feats[a] for a in mab.arms}
            if self.cfg.get("reuse_feats"):
                # F-REUSE for the arm-feature dictionary: the caller keeps ONE dict and corrects its vectors in place
                keep = self._pool.setdefault(("feats",), {})
                if set(keep) != set(feats):
                    keep.clear()
                for a, v in feats.items():
                    keep[a] = v
                feats = keep
                if ctx is not None:
                    ctx.fired("fault.caller_reuses_feature_dict")
            objs = [feats]
            if not self.fitted and self.ctxl and self.cfg["lp"][0] in LINEAR:
                return ("skip", None)
            call = lambda: mab.warm_start(feats, float(op["q"]))   # noqa: E731
        else:
            raise kernel.HarnessError("unknown op " + str(kind))
        ctx.sched = kernel.Sched.from_json(sched) if sched is not None else None
        ctx.parallel_calls = 0
        if hook:
            hook("before", objs)
        try:
            val = call()
        except kernel.HarnessError:
            raise
        except Exception as e:
            if hook:
                hook("after", objs)
            return ("exc", type(e).__name__)
        finally:
            ctx.sched = None
        if hook:
            hook("after", objs)
        if post:
            post()
        return ("ok", val)


# --------------------------------------------------------------------------------------------------
# random streams
# --------------------------------------------------------------------------------------------------

def lps_of(mab):
    imp = mab._imp
    if isinstance(imp, _Clusters):
        return [("lp_list[%d]" % i, lp) for i, lp in enumerate(imp.lp_list)]
    if hasattr(imp, "lp"):
        return [("lp", imp.lp)]
    return [("imp", imp)]


def rng_slots(mab):
    slots = [("mab._rng", mab, "_rng"), ("imp.rng", mab._imp, "rng")]
    for name, lp in lps_of(mab):
        if lp is not mab._imp:
            slots.append((name + ".rng", lp, "rng"))
        if isinstance(lp, _Linear) and lp.regression == "ts":     # only LinTS ever draws through its arm models
            for arm in lp.arms:
                if arm in lp.arm_to_model:
                    slots.append(("%s.model[%r].rng" % (name, arm), lp.arm_to_model[arm], "rng"))
    return slots


def alias_partition(mab):
    seen = {}
    part = []
    for i, (_, holder, attr) in enumerate(rng_slots(mab)):
        o = getattr(holder, attr)
        part.append(seen.setdefault(id(o), i))
    return part


def sync_streams(src, dst):
    """Copy every random-stream position of src into dst. Returns False if the alias partitions differ."""
    a, b = rng_slots(src), rng_slots(dst)
    if len(a) != len(b) or alias_partition(src) != alias_partition(dst):
        return False
    for (_, h1, at1), (_, h2, at2) in zip(a, b):
        getattr(h2, at2).rng.bit_generator.state = copy.deepcopy(getattr(h1, at1).rng.bit_generator.state)
    return True


def stream_states(mab):
    return [kernel.H(str(getattr(h, a).rng.bit_generator.state)) for _, h, a in rng_slots(mab)]


def clone_rng(rng_obj):
    """Independent clone of a mabwiser _NumpyRNG at its current position."""
    return copy.deepcopy(rng_obj)


# --------------------------------------------------------------------------------------------------
# parameter views: what the bandit has learned, in a comparable form
# --------------------------------------------------------------------------------------------------

def _lp_view(lp, trained=True):
    """trained=False: the policy object is only a template that is re-fit from scratch for every prediction
    (Radius / KNearest / LSHNearest) or never fit at all (TreeBandit): only what survives fit() is state."""
    v = {"class": type(lp).__name__, "arms": list(lp.arms)}
    for h in ("epsilon", "alpha", "tau", "l2_lambda", "regression", "scale"):
        if hasattr(lp, h):
            v[h] = getattr(lp, h)
    if not trained:
        if isinstance(lp, _ThompsonSampling):
            v["binarizer"] = NAME_OF.get(lp.binarizer, str(lp.binarizer is not None))
        for d in ("arm_to_sum", "arm_to_count", "arm_to_mean", "arm_to_success_count", "arm_to_model"):
            if hasattr(lp, d):
                v["keys_" + d] = list(getattr(lp, d).keys())
        return v
    v["status"] = {a: dict(s) for a, s in lp.arm_to_status.items()}
    if isinstance(lp, _Popularity) or isinstance(lp, _EpsilonGreedy):
        v.update(sum=dict(lp.arm_to_sum), count=dict(lp.arm_to_count), exp=dict(lp.arm_to_expectation))
    elif isinstance(lp, _UCB1):
        v.update(sum=dict(lp.arm_to_sum), count=dict(lp.arm_to_count), mean=dict(lp.arm_to_mean),
                 exp=dict(lp.arm_to_expectation), total=lp.total_count)
    elif isinstance(lp, _Softmax):
        v.update(sum=dict(lp.arm_to_sum), count=dict(lp.arm_to_count), mean=dict(lp.arm_to_mean),
                 exp=dict(lp.arm_to_expectation))
    elif isinstance(lp, _ThompsonSampling):
        v.update(succ=dict(lp.arm_to_success_count), fail=dict(lp.arm_to_fail_count),
                 binarizer=NAME_OF.get(lp.binarizer, str(lp.binarizer is not None)))
    elif isinstance(lp, _Random):
        pass
    elif isinstance(lp, _Linear):
        models = {}
        for arm, m in lp.arm_to_model.items():
            mv = {"beta": m.beta, "A": m.A, "A_inv": m.A_inv, "Xty": m.Xty}
            if m.scaler is not None and hasattr(m.scaler, "scale_"):
                mv["scaler"] = {"mean": m.scaler.mean_, "var": m.scaler.var_, "scale": m.scaler.scale_,
                                "n": m.scaler.n_samples_seen_}
            models[arm] = mv
        v.update(models=models, num_features=lp.num_features)
    return v


def _tree_view(tree):
    if not hasattr(tree, "tree_"):
        return None
    st = tree.tree_.__getstate__()
    nodes = st["nodes"]
    return {"nodes": {f: np.asarray(nodes[f]).copy() for f in nodes.dtype.names}, "values": st["values"].copy(),
            "n": int(tree.tree_.node_count)}


def pview(mab, per_arm_only=False):
    """Everything the bandit has learned (never: generator positions, caches of the last draw,
    empty hash buckets created by look-ups)."""
    imp = mab._imp
    v = {"arms": list(mab.arms), "imp_arms": list(imp.arms), "fitted": bool(mab._is_initial_fit),
         "cold": list(mab.cold_arms)}
    if isinstance(imp, _Clusters):
        v["hist"] = {"dec": imp.decisions, "rew": imp.rewards, "ctx": imp.contexts}
        if hasattr(imp.kmeans, "cluster_centers_"):
            v["kmeans"] = {"centers": imp.kmeans.cluster_centers_, "labels": imp.kmeans.labels_}
        v["lps"] = [_lp_view(lp) for lp in imp.lp_list]
    elif isinstance(imp, _Neighbors):
        v["hist"] = {"dec": imp.decisions, "rew": imp.rewards, "ctx": imp.contexts}
        v["lp"] = _lp_view(imp.lp, trained=False)
        if not isinstance(imp, _KNearest):      # returned to the caller for empty neighbourhoods (Radius, LSH)
            v["nan_template"] = dict(imp.arm_to_expectation)
            v["no_nhood_prob_of_arm"] = list(imp.no_nhood_prob_of_arm) if isinstance(imp.no_nhood_prob_of_arm, list) \
                else imp.no_nhood_prob_of_arm
        if isinstance(imp, _LSHNearest):
            v["planes"] = {k: p for k, p in imp.table_to_plane.items()}
            v["tables"] = {k: {h: sorted(int(i) for i in t[h]) for h in sorted(t) if len(t[h])}
                           for k, t in imp.table_to_hash_to_index.items()}
    elif isinstance(imp, _TreeBandit):
        v["lp"] = _lp_view(imp.lp, trained=False)
        v["trees"] = {a: _tree_view(t) for a, t in imp.arm_to_tree.items()}
        v["leaves"] = {a: {int(leaf): r.copy() for leaf, r in d.items() if len(r)}
                       for a, d in imp.arm_to_leaf_to_rewards.items()}
        v["template"] = dict(imp.arm_to_expectation)
    else:
        v["lp"] = _lp_view(imp)
    return v


def arm_state(mab, arm):
    """Per-arm learned state for C13 (without soft-max shares, which move when other arms' means appear)."""
    lp = mab._imp
    if isinstance(lp, _EpsilonGreedy):
        s = {"sum": lp.arm_to_sum[arm], "count": lp.arm_to_count[arm]}
        if not isinstance(lp, _Popularity):
            s["exp"] = lp.arm_to_expectation[arm]
        return s
    if isinstance(lp, _UCB1):
        return {"sum": lp.arm_to_sum[arm], "count": lp.arm_to_count[arm], "mean": lp.arm_to_mean[arm],
                "exp": lp.arm_to_expectation[arm]}
    if isinstance(lp, _Softmax):
        return {"sum": lp.arm_to_sum[arm], "count": lp.arm_to_count[arm], "mean": lp.arm_to_mean[arm]}
    if isinstance(lp, _ThompsonSampling):
        return {"succ": lp.arm_to_success_count[arm], "fail": lp.arm_to_fail_count[arm]}
    if isinstance(lp, _Linear):
        m = lp.arm_to_model[arm]
        return {"beta": m.beta, "A": m.A, "A_inv": m.A_inv, "Xty": m.Xty}
    return {}


# --------------------------------------------------------------------------------------------------
# structural comparison
# --------------------------------------------------------------------------------------------------

def _isnum(x):
    return isinstance(x, (int, float, np.integer, np.floating)) and not isinstance(x, (bool, np.bool_))


def diff(a, b, rtol=0.0, atol=0.0, path=""):
    """First difference between two nested values (None if equal). NaN equals NaN. Numbers compare by value
    (1 == 1.0); with rtol/atol > 0 numbers may differ by atol + rtol*max(|a|,|b|)."""
    if _isnum(a) and _isnum(b):
        fa, fb = float(a), float(b)
        if math.isnan(fa) or math.isnan(fb):
            return None if (math.isnan(fa) and math.isnan(fb)) else "%s: %r != %r" % (path, a, b)
        if fa == fb:
            return None
        if math.isinf(fa) or math.isinf(fb):
            return "%s: %r != %r" % (path, a, b)
        if abs(fa - fb) <= atol + rtol * max(abs(fa), abs(fb)):
            return None
        return "%s: %r != %r" % (path, a, b)
    if isinstance(a, np.ndarray) or isinstance(b, np.ndarray):
        if a is None or b is None:
            return "%s: %r != %r" % (path, type(a).__name__, type(b).__name__)
        a, b = np.asarray(a), np.asarray(b)
        if a.shape != b.shape:
            return "%s: shape %r != %r" % (path, a.shape, b.shape)
        if a.dtype.kind in "OUS" or b.dtype.kind in "OUS":
            return None if (a.astype(str) == b.astype(str)).all() else "%s: arrays differ" % path
        a = a.astype(float)
        b = b.astype(float)
        both_nan = np.isnan(a) & np.isnan(b)
        with np.errstate(invalid="ignore"):
            close = (a == b) | both_nan | (np.abs(a - b) <= atol + rtol * np.maximum(np.abs(a), np.abs(b)))
        if close.all():
            return None
        i = int(np.argmin(close.ravel()))
        return "%s[%d]: %r != %r" % (path, i, a.ravel()[i], b.ravel()[i])
    if isinstance(a, dict) and isinstance(b, dict):
        if list(a.keys()) != list(b.keys()):
            return "%s: keys %r != %r" % (path, list(a.keys()), list(b.keys()))
        for k in a:
            d = diff(a[k], b[k], rtol, atol, "%s.%s" % (path, k))
            if d:
                return d
        return None
    if isinstance(a, (list, tuple)) and isinstance(b, (list, tuple)):
        if len(a) != len(b):
            return "%s: len %d != %d" % (path, len(a), len(b))
        for i, (x, y) in enumerate(zip(a, b)):
            d = diff(x, y, rtol, atol, "%s[%d]" % (path, i))
            if d:
                return d
        return None
    if type(a) is not type(b) and not (isinstance(a, (bool, np.bool_)) and isinstance(b, (bool, np.bool_))):
        return "%s: type %s != %s (%r, %r)" % (path, type(a).__name__, type(b).__name__, a, b)
    return None if a == b else "%s: %r != %r" % (path, a, b)


def tol_for(cfg, regime):
    """Comparison tolerance for replica-vs-replica equality (DESIGN 3.5)."""
    if cfg["lp"][0] in LINEAR:
        return 1e-9 if regime == "exact" else 1e-7
    if regime == "exact":
        return 0.0
    return 1e-9
