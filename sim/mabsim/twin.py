"""Replica ("twin") machinery shared by the properties that compare a primary with a transformed replica."""
from .oracles import compare_results
from .world import diff, pview, sync_streams


def obs_ops(Q, m_none=False):
    """The standard observation: predict, expectations, predict again (so stream advancement is covered too)."""
    return [{"op": "predict", "Q": Q}, {"op": "expect", "Q": Q}, {"op": "predict", "Q": Q}]


def observe_same(P, R, qops, ctx, rtol=0.0, atol=0.0, sync=True, sched=None, container_r="list"):
    """Apply the same query ops to both sessions (after copying P's stream positions into R) and compare.
    Returns None or (kind, detail)."""
    for q in qops:
        if sync:
            if not sync_streams(P.mab, R.mab):
                # Which generator objects are shared between the bandit, its policies and its per-arm models differs
                # between the two bandits: they cannot be put at "the same random-stream position", so their later
                # draws cannot coincide. (Design 4.4 foresaw a parameter-view fallback for LinTS before the repair of
                # finding #4; since _Linear.fit re-binds the arm models, equal histories give equal aliasing.)
                from .world import alias_partition
                ctx.fired("probe.generator_aliasing_differs")
                return ("aliasing", "generator aliasing %r vs %r" % (alias_partition(P.mab), alias_partition(R.mab)))
        rp = P.apply(q, sched=sched)
        rr = R.apply(q, sched=sched, container=container_r)
        ctx.fired("oracle.comparisons")
        if rp[0] == "ok":
            ctx.ev("obs", q["op"], rp[1])
        c = compare_results(rp, rr, rtol, atol)
        if c:
            return c
    return None


def same_params(P, R, ctx, rtol=0.0, atol=0.0):
    ctx.fired("oracle.comparisons")
    return diff(pview(P.mab), pview(R.mab), rtol, atol)
