"""Reference models: small, obviously-right executables used as oracles (DESIGN section 5)."""
import math

import numpy as np

EPS = float(np.finfo(float).eps)


class RefContextFree:
    """Per arm: the rewards observed since the last fit. N: all rows since the last fit (as of the last training call)."""

    def __init__(self, lp, arms):
        self.name, self.kw = lp[0], dict(lp[1])
        self.arms = list(arms)
        self.obs = {a: [] for a in self.arms}
        self.N = 0
        self.N_at_refresh = 0

    # --- history
    def fit(self, rows):
        self.obs = {a: [] for a in self.arms}
        self.N = 0
        self.partial_fit(rows)

    def partial_fit(self, rows):
        for dec, rew, _ in rows:
            self.obs[dec].append(rew)
        self.N += len(rows)
        self.N_at_refresh = self.N

    def add_arm(self, arm):
        self.arms.append(arm)
        self.obs[arm] = []

    def remove_arm(self, arm):
        self.arms.remove(arm)
        del self.obs[arm]

    # --- documented statistics
    def mean(self, a):
        r = self.obs[a]
        return (math.fsum(r) / len(r)) if r else 0

    def expectations(self):
        """Deterministic per-arm quantity the policy holds (None where the policy holds no such quantity)."""
        n = self.name
        if n == "EpsilonGreedy":
            return {a: self.mean(a) for a in self.arms}
        if n == "UCB1":
            out = {}
            for a in self.arms:
                k = len(self.obs[a])
                if k:
                    out[a] = self.mean(a) + self.kw.get("alpha", 1) * math.sqrt(2 * math.log(self.N_at_refresh) / k)
                else:
                    out[a] = 0
            return out
        if n == "Softmax":
            means = {a: self.mean(a) for a in self.arms}
            mx = max(means.values())
            ex = {a: math.exp((means[a] - mx) / self.kw.get("tau", 1)) for a in self.arms}
            tot = math.fsum(ex.values())
            return {a: ex[a] / tot for a in self.arms}
        if n == "Popularity":
            means = {a: self.mean(a) for a in self.arms}
            tot = math.fsum(means.values())
            if tot == 0:
                return None     # normalisation undefined: only "non-negative, sums to one" is required
            return {a: means[a] / tot for a in self.arms}
        return None

    def beta_params(self):
        return {a: (1 + sum(1 for r in self.obs[a] if r == 1), 1 + sum(1 for r in self.obs[a] if r != 1))
                for a in self.arms}


def _rows(vals, arms, m):
    out = [dict(zip(arms, [float(x) for x in row])) for row in vals]
    return out[0] if (m is None or m == 1) else out


def replay_context_free(name, kw, arms, rng, m, exp=None, beta=None):
    """Redo the documented sampling of predict_expectations on a CLONE of the bandit's generator, with the ORACLE's
    parameters. m: number of context rows (None = no contexts)."""
    k = len(arms)
    size = 1 if m is None else m
    if name == "EpsilonGreedy":
        eps = kw.get("epsilon", 0.1)
        if m is None or m == 1:
            if rng.rand() < eps:
                return {a: float(rng.rand()) for a in arms}
            return dict(exp)
        prob = rng.rand(m)
        rv = rng.rand((m, k))
        return [dict(zip(arms, [float(x) for x in rv[i]])) if prob[i] < eps else dict(exp) for i in range(m)]
    if name == "UCB1":
        return dict(exp) if (m is None or m == 1) else [dict(exp) for _ in range(m)]
    if name in ("Softmax", "Popularity"):
        alpha = [exp[a] + EPS for a in arms]
        return _rows(rng.dirichlet(alpha, size), arms, m)
    if name == "ThompsonSampling":
        draws = {a: rng.beta(beta[a][0], beta[a][1], size) for a in arms}
        rows = [{a: float(draws[a][i]) for a in arms} for i in range(size)]
        return rows[0] if (m is None or m == 1) else rows
    if name == "Random":
        return _rows(rng.rand((size, k)), arms, m)
    raise ValueError(name)


# ---------------------------------------------------------------------------------------------------
# ridge regression
# ---------------------------------------------------------------------------------------------------

class RefRidge:
    """Per arm the raw (X, y) since the last fit; everything is solved from scratch with numpy.linalg.solve."""

    def __init__(self, lp, arms):
        self.name, self.kw = lp[0], dict(lp[1])
        self.lam = self.kw.get("l2_lambda", 1.0)
        self.arms = list(arms)
        self.X = {a: [] for a in self.arms}
        self.y = {a: [] for a in self.arms}
        self.d = None

    def fit(self, rows):
        self.X = {a: [] for a in self.arms}
        self.y = {a: [] for a in self.arms}
        self.d = len(rows[0][2])
        self.partial_fit(rows)

    def partial_fit(self, rows):
        for dec, rew, x in rows:
            self.X[dec].append(x)
            self.y[dec].append(rew)

    def add_arm(self, arm):
        self.arms.append(arm)
        self.X[arm], self.y[arm] = [], []

    def remove_arm(self, arm):
        self.arms.remove(arm)
        del self.X[arm], self.y[arm]

    def observed(self, a):
        return len(self.y[a]) > 0

    def scaler(self, a):
        X = np.asarray(self.X[a], dtype=float)
        mu = X.mean(axis=0)
        sd = X.std(axis=0)
        sd = np.where(sd <= 1e-6, 1.0, sd)
        return mu, sd

    def model(self, a, scale=False):
        """(beta, covariance = (X'X + lam I)^-1) for arm a."""
        d = self.d
        eye = np.identity(d)
        if not self.observed(a):
            return np.zeros(d), eye / self.lam
        X = np.asarray(self.X[a], dtype=float)
        y = np.asarray(self.y[a], dtype=float)
        if scale:
            mu, sd = self.scaler(a)
            X = (X - mu) / sd
        A = X.T @ X + self.lam * eye
        beta = np.linalg.solve(A, X.T @ y)
        cov = np.linalg.solve(A, eye)
        return beta, cov

    def transform(self, a, Q, scale):
        Q = np.asarray(Q, dtype=float)
        if scale and self.observed(a):
            mu, sd = self.scaler(a)
            return (Q - mu) / sd
        return Q


# ---------------------------------------------------------------------------------------------------
# neighbourhoods
# ---------------------------------------------------------------------------------------------------

def int_distance(metric, a, b):
    """Exact distance on the integer grid (euclidean: correctly rounded sqrt of the exact integer)."""
    diffs = [abs(int(x) - int(y)) for x, y in zip(a, b)]
    if metric == "cityblock":
        return float(sum(diffs))
    if metric == "chebyshev":
        return float(max(diffs))
    if metric == "sqeuclidean":
        return float(sum(x * x for x in diffs))
    if metric == "euclidean":
        return math.sqrt(sum(x * x for x in diffs))
    raise ValueError(metric)


def radius_members(metric, stored, q, radius):
    return [i for i, s in enumerate(stored) if int_distance(metric, s, q) <= radius]


def knearest_options(metric, stored, q, k, cap=64):
    """All valid k-nearest selections: must-take rows plus any completion from the tie class of the k-th distance.
    Returns (must, tie_class, need) ; the number of valid selections is C(len(tie), need)."""
    ds = [int_distance(metric, s, q) for s in stored]
    order = sorted(range(len(ds)), key=lambda i: ds[i])
    kth = ds[order[k - 1]]
    must = [i for i in range(len(ds)) if ds[i] < kth]
    tie = [i for i in range(len(ds)) if ds[i] == kth]
    need = k - len(must)
    return must, tie, need
