"""Search driver: seeded runs on a fork pool, violation classes, known findings, minimisation, replay files,
evidence. Exit codes: 0 held (known findings printed), 1 VIOLATION, 2 harness error (never a verdict)."""
import concurrent.futures as cf
import faulthandler
import importlib
import json
import multiprocessing
import os
import random
import subprocess
import sys
import time
import traceback
from collections import Counter

from . import kernel, seams, shrink
from .world import lp_class, np_class

VERIF = os.path.dirname(os.path.dirname(os.path.dirname(os.path.abspath(__file__))))
_OUT = os.environ.get("VERIF_OUT")          # mutant / scratch runs write their replays and evidence elsewhere
REPLAYS = os.path.join(_OUT or VERIF, "replays")
EVIDENCE = os.path.join(_OUT or VERIF, "evidence")
KNOWN = os.path.join(VERIF, "known_findings.json")
RUN_PY = os.path.join(VERIF, "sim", "run.py")

ABSTRACT_KINDS = {"threads", "procs", "partition", "fault", "worker_failure", "knob"}


def load_mod(prop):
    return importlib.import_module("mabsim.props." + prop.lower())


def tree_id():
    src = os.environ.get("MABWISER_SRC", "/repo")
    try:
        head = subprocess.run(["git", "-C", src, "rev-parse", "HEAD"], capture_output=True, text=True).stdout.strip()
        dirty = subprocess.run(["git", "-C", src, "status", "--porcelain", "--", "mabwiser"], capture_output=True,
                               text=True).stdout.strip()
        return head + ("+dirty" if dirty else "")
    except Exception:
        return "unknown"


def exec_case(mod, case, fresh=False):
    """Pure function (case, code) -> result. fresh=True: helper interpreters (C04, C19) are restarted first."""
    if fresh and getattr(mod, "USES_SERVERS", False):
        from . import restore_server
        restore_server.reset_servers()
    seams.install()
    seams.reset_shared_defaults()
    ctx = kernel.set_ctx(kernel.Ctx())
    try:
        mod.execute(case, ctx)
    finally:
        ctx.sched = None
        kernel.set_ctx(kernel.Ctx(record=False))
    cfg = case.get("cfg") or {}
    abstract = [e[:2] if e[0] == "op" else e for e in ctx.log if e[0] == "op" or e[0] in ABSTRACT_KINDS]
    lpc = lp_class(cfg) if cfg.get("lp") else "-"
    npc = np_class(cfg) if cfg.get("lp") else "-"
    akey = kernel.H(lpc, npc, json.dumps(abstract, sort_keys=True))
    tapes = [e for e in ctx.log if e[0] in ("threads", "procs", "partition")]
    tkey = kernel.H(json.dumps(tapes, sort_keys=True)) if tapes else None
    st = ctx.stats
    nontrivial = (st.get("oracle.comparisons", 0) > 0 and st.get("ops.train", 0) > 0 and
                  any(k.startswith(("fault.", "sched.", "knob.")) and v > 0 for k, v in st.items()))
    for v in ctx.violations:
        v["cls"] = vclass(mod.ID, v, lpc, npc)
        v["lp"], v["np"] = lpc, npc
    return {"digest": ctx.digest(), "stats": dict(st), "violations": ctx.violations, "akey": akey, "tkey": tkey,
            "nontrivial": bool(nontrivial), "events": len(ctx.log), "monitor_events": ctx.monitor_events}


def vclass(prop, v, lpc, npc):
    sig = ",".join("%s=%s" % kv for kv in sorted(v["sig"].items()))
    return "%s|%s|%s|%s|%s" % (prop, v["oracle"], lpc, npc, sig)


def load_known():
    if not os.path.exists(KNOWN):
        return []
    return json.load(open(KNOWN))


def match_known(prop, v, known):
    fields = dict(v["sig"])
    fields.update(oracle=v["oracle"], lp=v["lp"], np=v["np"])
    for k in known:
        if k.get("property") != prop or k.get("status") != "open":
            continue
        ok = True
        for key, want in k.get("signature", {}).items():
            have = fields.get(key)
            if isinstance(want, list):
                ok = have in want
            else:
                ok = have == want
            if not ok:
                break
        if ok:
            return k
    return None


def case_for(mod, verif_seed, tier, index):
    run_seed = kernel.H(verif_seed, mod.ID, index)
    rnd = random.Random(run_seed)
    from . import gen
    gen.TIER_SCALE = 2 if tier == "thorough" else 1
    case = mod.generate(rnd, tier, index=index)
    case["property"] = mod.ID
    case["verif_seed"] = verif_seed
    case["run_index"] = index
    return case


def _chunk(args):
    prop, verif_seed, tier, indices, keep_samples = args
    faulthandler.dump_traceback_later(600, exit=True)
    mod = load_mod(prop)
    out = []
    for i in indices:
        t0 = time.perf_counter()
        case = case_for(mod, verif_seed, tier, i)
        try:
            res = exec_case(mod, case)
        except Exception:
            faulthandler.cancel_dump_traceback_later()
            return {"harness_error": "run %d: %s" % (i, traceback.format_exc()), "case": case}
        rec = {"i": i, "digest": res["digest"], "stats": res["stats"], "akey": res["akey"], "tkey": res["tkey"],
               "nontrivial": res["nontrivial"], "events": res["events"], "mon": res["monitor_events"],
               "t": time.perf_counter() - t0}
        if res["violations"]:
            rec["violations"] = res["violations"]
            rec["case"] = case
        elif i in keep_samples:
            rec["case"] = case
        out.append(rec)
    faulthandler.cancel_dump_traceback_later()
    return {"recs": out}


def write_replay(prop, case, v, digest, intermittent=False):
    os.makedirs(REPLAYS, exist_ok=True)
    name = "%s-%s-%s.json" % (prop, case.get("verif_seed", 0), case.get("run_index", 0))
    path = os.path.join(REPLAYS, name)
    doc = dict(case)
    if intermittent:
        # the simulator is deterministic (self-test), so a violation that recurs only in some re-executions of the same
        # case means the SYSTEM UNDER TEST is not a function of its inputs (e.g. it reads process-global random state)
        doc["intermittent"] = True
    doc["violation"] = {"class": v["cls"], "oracle": v["oracle"], "step": v["step"], "sig": v["sig"],
                        "detail": v["detail"], "lp": v["lp"], "np": v["np"]}
    doc["digest"] = digest
    doc["mabwiser_tree_id"] = tree_id()
    with open(path, "w") as f:
        json.dump(doc, f, indent=1)
    return path


def minimise(mod, case, cls, max_exec=400, tries=1):
    def fails(c):
        for _ in range(tries):
            try:
                r = exec_case(mod, c, fresh=True)
            except Exception:
                return False
            if any(v["cls"] == cls for v in r["violations"]):
                return True
        return False
    if not fails(case):
        raise kernel.HarnessError("minimised case no longer fails")     # not even the original recurs (fresh helpers)
    small, used = shrink.shrink(case, fails, mod, max_exec)
    for _ in range(max(1, tries * 3)):
        r = exec_case(mod, small, fresh=True)
        v = next((v for v in r["violations"] if v["cls"] == cls), None)
        if v is not None:
            return small, v, r["digest"], used
    # with tries == 1 this cannot happen for a deterministic system under test: shrink only accepts failing candidates
    raise kernel.HarnessError("minimised case no longer fails")


def replay_fresh(path):
    env = dict(os.environ)
    env.setdefault("PYTHONHASHSEED", "0")
    p = subprocess.run([sys.executable, RUN_PY, "--replay", path], capture_output=True, text=True, env=env,
                       timeout=600)
    return p.returncode, p.stdout + p.stderr


def replay(path):
    doc = json.load(open(path))
    prop = doc["property"]
    mod = load_mod(prop)
    want = doc["violation"]["class"]
    known = load_known()
    attempts = 40 if doc.get("intermittent") else 1
    other = None
    for attempt in range(attempts):
        res = exec_case(mod, doc, fresh=True)
        hit = next((v for v in res["violations"] if v["cls"] == want), None)
        if hit is not None:
            break
        if other is None and res["violations"]:
            other = res["violations"][0]
    if hit is None and doc.get("intermittent") and other is not None:
        # a nondeterministic system under test fails whichever comparison comes first: any violation of this property
        # on this very case demonstrates the same thing
        print("note: class %s did not recur, but %s did" % (want, other["cls"]))
        hit = other
    if doc.get("intermittent") and hit is not None:
        print("intermittent violation (the system under test is not deterministic for this case): class reproduced "
              "at re-execution %d of at most %d; digests are not comparable" % (attempt + 1, attempts))
        k = match_known(prop, hit, known)
        if k is not None:
            print("KNOWN-FINDING: property=%s %s (%s)" % (prop, k["what_fails"], k["id"]))
            return 0
        print("detail:", json.dumps(hit["detail"])[:2000])
        print("VIOLATION property=%s replay=%s" % (prop, path))
        return 1
    if hit is None:
        print("REPLAY-MISMATCH property=%s expected class %s, got %s" % (prop, want,
                                                                        [v["cls"] for v in res["violations"]]))
        return 2
    same_digest = res["digest"] == doc.get("digest")
    k = match_known(prop, hit, known)
    print("replayed: class=%s step=%s digest_equal=%s" % (want, hit["step"], same_digest))
    print("detail:", json.dumps(hit["detail"])[:2000])
    if k is not None:
        print("KNOWN-FINDING: property=%s %s (%s)" % (prop, k["what_fails"], k["id"]))
        return 0
    print("VIOLATION property=%s replay=%s" % (prop, path))
    return 1 if same_digest else 2


def run_property(prop, tier, verif_seed, budget_s=None, n_runs=None, workers=None, quiet=False):
    mod = load_mod(prop)
    t_start = time.time()
    workers = workers or int(os.environ.get("VERIF_WORKERS", "16"))
    if n_runs is None:
        n_runs = int(os.environ.get("VERIF_RUNS", "0")) or getattr(mod, "QUICK_RUNS", 400)
    if tier == "thorough" and budget_s is None:
        budget_s = float(os.environ.get("VERIF_BUDGET_S", "900"))
    chunk = getattr(mod, "CHUNK", 20)
    known = load_known()
    ctxmp = multiprocessing.get_context("fork")
    recs = []
    harness_errors = []
    sample_idx = {0, 1, 2}
    next_index = 0
    pending = set()
    chunk_timeout = getattr(mod, "CHUNK_TIMEOUT", 900)
    with cf.ProcessPoolExecutor(max_workers=workers, mp_context=ctxmp) as ex:
        def submit():
            nonlocal next_index
            idx = list(range(next_index, next_index + chunk))
            next_index += chunk
            f = ex.submit(_chunk, (prop, verif_seed, tier, idx, sample_idx))
            f._t0 = time.time()
            pending.add(f)

        def more_wanted():
            if tier == "thorough":
                return time.time() - t_start < budget_s
            return next_index < n_runs
        while more_wanted() and len(pending) < workers * 2:
            submit()
        try:
            while pending:
                done, _ = cf.wait(pending, timeout=5, return_when=cf.FIRST_COMPLETED)
                for f in done:
                    pending.discard(f)
                    r = f.result()
                    if "harness_error" in r:
                        harness_errors.append(r["harness_error"])
                    else:
                        recs.extend(r["recs"])
                for f in list(pending):
                    if time.time() - f._t0 > chunk_timeout:
                        harness_errors.append("chunk timed out")
                        pending.discard(f)
                while more_wanted() and len(pending) < workers * 2 and not harness_errors:
                    submit()
                if harness_errors:
                    break
        except cf.process.BrokenProcessPool as e:
            harness_errors.append("worker crashed: %r" % (e,))
        if harness_errors:
            for f in pending:
                f.cancel()
            ex.shutdown(wait=False, cancel_futures=True)
    recs.sort(key=lambda r: r["i"])
    wall_search = time.time() - t_start

    # ---- verdicts
    by_class = {}
    known_hits = {}
    for r in recs:
        for v in r.get("violations", []):
            k = match_known(prop, v, known)
            if k is not None:
                known_hits.setdefault(k["id"], [k, 0])
                known_hits[k["id"]][1] += 1
            else:
                by_class.setdefault(v["cls"], (r, v))
    reported = []
    max_classes = int(os.environ.get("VERIF_MAX_CLASSES", "8"))
    skipped_classes = sorted(by_class)[max_classes:]
    shrink_exec = lambda: int(os.environ.get("VERIF_SHRINK_EXEC", "0")) or getattr(mod, "SHRINK_EXEC", 300)   # noqa: E731
    for cls, (r, v) in sorted(by_class.items())[:max_classes]:
        try:
            intermittent = False
            try:
                small, v2, dig, used = minimise(mod, r["case"], cls, shrink_exec())
            except kernel.HarnessError:
                # does it recur at all? (see write_replay: intermittent = nondeterministic system under test)
                intermittent = True
                try:
                    small, v2, dig, used = minimise(mod, r["case"], cls, shrink_exec(),
                                                    tries=2 if getattr(mod, "USES_SERVERS", False) else 4)
                except kernel.HarnessError:
                    # too rare to minimise: keep the case as it was observed (the replay tries it many times)
                    small, v2, dig, used = r["case"], v, r["digest"], 0
            path = write_replay(prop, small, v2, dig, intermittent)
            rc, out = replay_fresh(path)
            if rc != 1 and not intermittent:
                # deterministic in this process but not in a fresh one: same conclusion, report as intermittent
                path = write_replay(prop, small, v2, dig, True)
                rc, out = replay_fresh(path)
                intermittent = rc == 1
            if rc != 1:
                harness_errors.append("violation %s does not replay in a fresh interpreter (rc=%s): %s"
                                      % (cls, rc, out[-1500:]))
                continue
            reported.append((cls + (" [intermittent]" if intermittent else ""), path, used, v2))
        except Exception:
            harness_errors.append("minimise/replay failed for %s: %s" % (cls, traceback.format_exc()))

    # ---- evidence
    stats = Counter()
    for r in recs:
        stats.update(r["stats"])
    nontriv_keys = {r["akey"] for r in recs if r["nontrivial"]}
    digests = {r["digest"] for r in recs}
    wall = time.time() - t_start
    samples = [r["case"] for r in recs if r["i"] in sample_idx and "case" in r][:3]
    runs_per_hour = int(len(recs) / max(wall_search, 1e-9) * 3600)
    faults = {k: v for k, v in sorted(stats.items()) if k.startswith(("fault.", "sched.", "knob."))}
    probes = {k: v for k, v in sorted(stats.items()) if k.startswith("probe.")}
    stuck = [p for p in getattr(mod, "EXPECTED_PROBES", []) if stats.get(p, 0) == 0]
    ev = {
        "property_id": prop, "tier": tier, "seed": int(verif_seed), "level": getattr(mod, "LEVEL", "exploration"),
        "coverage": {
            "evaluations": len(recs),
            "distinct_nontrivial": len(nontriv_keys),
            "rule": getattr(mod, "RULE", "") + " A run is non-trivial if it executed >=1 training operation, >=1 "
            "fault or scheduler decision and >=1 oracle comparison; distinct = distinct (policy class, abstract "
            "operation-kind sequence, scheduler/partition/fault tape).",
            "samples": samples,
            "distinct_event_logs": len(digests),
            "distinct_interleavings": len({r["tkey"] for r in recs if r.get("tkey") is not None}),
            "distinct_interleavings_measure": "distinct scheduler decision tapes of a run: the sequence of (thread-mode task "
            "pick order incl. yields, process-mode batch grouping and order, partition sizes) over all SimParallel calls",
            "runs_per_hour": runs_per_hour,
            "seeds_per_hour": runs_per_hour,
            "simulated_time": "none: mabwiser has no clocks, timers or deadlines; logical steps are reported",
            "logical_steps": {"operations": stats.get("ops", 0), "oracle_comparisons": stats.get("oracle.comparisons", 0),
                              "log_events": sum(r["events"] for r in recs),
                              "monitoring_events": sum(r["mon"] for r in recs)},
            "faults_fired": faults,
            "probes": probes,
            "probes_stuck_at_zero": stuck,
            "other_counters": {k: v for k, v in sorted(stats.items())
                               if not k.startswith(("fault.", "sched.", "probe.", "knob."))},
            "known_findings_hit": {k: n for k, (_, n) in known_hits.items()},
            "components": {"real": ["mabwiser (current /repo tree)", "numpy", "scipy", "scikit-learn", "pandas",
                                    "pickle/copy"] + getattr(mod, "REAL_EXTRA", []),
                           "stub": ["joblib threading/loky/multiprocessing backends (SimParallel)",
                                    "multiprocessing.cpu_count"]},
            "mabwiser_tree_id": tree_id(),
            "workers": workers,
        },
        "assumptions": ["OMP/BLAS threads = 1", "CPython 3.12 sys.monitoring event streams are deterministic",
                        "numpy Generator streams are reproducible",
                        "process-backend stub keeps copy semantics only (DESIGN 3.3)"] + getattr(mod, "ASSUMPTIONS", []),
        "wall_s": round(wall, 2),
        "violations": len(reported),
    }
    os.makedirs(EVIDENCE, exist_ok=True)
    with open(os.path.join(EVIDENCE, prop + ".json"), "w") as f:
        json.dump(ev, f, indent=1, default=str)

    # ---- report
    if not quiet:
        print("%s tier=%s seed=%s runs=%d distinct_nontrivial=%d wall=%.1fs runs/h=%d" %
              (prop, tier, verif_seed, len(recs), len(nontriv_keys), wall, runs_per_hour))
        if stuck:
            print("note: probes stuck at zero: %s" % stuck)
    for kid, (k, n) in sorted(known_hits.items()):
        print("KNOWN-FINDING: property=%s %s (%s, %d runs)" % (prop, k["what_fails"], kid, n))
    for cls, path, used, v in reported:
        print("violation class: %s (minimised with %d executions)" % (cls, used))
        print("VIOLATION property=%s replay=%s" % (prop, path))
    if skipped_classes:
        print("%d further violation classes were found and not minimised (VERIF_MAX_CLASSES=%d): %s"
              % (len(skipped_classes), max_classes, "; ".join(skipped_classes[:12])))
    if harness_errors:
        for h in harness_errors[:5]:
            print("HARNESS-ERROR %s" % h)
        return 2
    return 1 if reported else 0
