"""C17 -- a rejected call changes nothing (fault enumeration: catalogue x policy combination x history position).

For every policy-combination class, every catalogue entry (a generator of concrete bad arguments) and every position
class of a valid history (before first fit / after fit / after partial_fit / after an arm change / after warm start),
the primary receives the bad call; a deep copy taken just before never sees it. If the call raises, the arm list, the
parameter view and all random-stream positions must be unchanged and a continuation (always: a further partial_fit and
queries) must return exactly the same on both. If a catalogue call does NOT raise the property makes no claim: the
same call is applied to the copy and the entry is counted as "did not fire".
"""
import random

import numpy as np
import pandas as pd

from .. import gen, kernel
from ..binarizers import gt10
from ..oracles import compare_results
from ..world import (CLUSTER_LPS, CONTEXT_FREE, LINEAR, TREE_LPS, Session, diff, is_contextual, make_lp, make_np, pview,
                     stream_states)

ID = "C17"
LEVEL = "fault_enumeration"
RULE = ("Enumeration: quick covers the full cross product (47 policy-combination classes) x (catalogue of invalid calls "
        "and training shape errors) x (5 history-position classes) once, hyper-parameters/data drawn from the run seed; "
        "thorough repeats it with random histories around the fault.")
POSITIONS = ["before_fit", "after_fit", "after_partial_fit", "after_arm_change", "after_warm_start"]
LPS = list(CONTEXT_FREE) + list(LINEAR)
COMBOS = [(lp, None) for lp in LPS] + [(lp, n) for n in ("Radius", "KNearest", "LSHNearest") for lp in LPS] + \
         [(lp, "Clusters") for lp in CLUSTER_LPS] + [(lp, "TreeBandit") for lp in TREE_LPS]


# ---------------------------------------------------------------------------------------------------
# catalogue: name -> builder(sess, rnd) -> (method, args) or None when not applicable
# ---------------------------------------------------------------------------------------------------

def _rows(sess, rnd, n, d=None):
    cfg = sess.cfg
    rk = "binary" if cfg["lp"][0] == "ThompsonSampling" else ("nonneg" if cfg["lp"][0] == "Popularity" else "smallint")
    d = d or sess.d or 2
    return gen.gen_rows(rnd, list(sess.mab.arms), n, d, "exact", rk, sess.ctxl)


def _split(rows, ctxl):
    dec = [r[0] for r in rows]
    rew = [r[1] for r in rows]
    ctx = [r[2] for r in rows] if ctxl else None
    return dec, rew, ctx


def _train_entry(mutate, need_ctxl=None):
    def build(kind):
        def b(sess, rnd):
            if need_ctxl is not None and sess.ctxl != need_ctxl:
                return None
            n = max(4, sess.min_rows() + 1)
            dec, rew, ctx = _split(_rows(sess, rnd, n), sess.ctxl)
            out = mutate(sess, rnd, dec, rew, ctx)
            if out is None:
                return None
            dec, rew, ctx = out
            return (kind, (dec, rew, ctx) if sess.ctxl or ctx is not None else (dec, rew))
        return b
    return build


def _set(lst, i, v):
    lst = list(lst)
    lst[i] = v
    return lst


TRAIN = {
    "decisions_tuple": _train_entry(lambda s, r, d, w, c: (tuple(d), w, c)),
    "decisions_none": _train_entry(lambda s, r, d, w, c: (None, w, c)),
    "rewards_dict": _train_entry(lambda s, r, d, w, c: (d, dict(enumerate(w)), c)),
    "rewards_tuple": _train_entry(lambda s, r, d, w, c: (d, tuple(w), c)),
    "len_dec_ne_rew": _train_entry(lambda s, r, d, w, c: (d, w[:-1], c)),
    "len_dec_ne_rew_longer": _train_entry(lambda s, r, d, w, c: (d, w + [w[0]], c)),
    "len_dec_ne_ctx": _train_entry(lambda s, r, d, w, c: (d, w, c[:-1]), need_ctxl=True),
    "ctx_for_context_free": _train_entry(lambda s, r, d, w, c: (d, w, [[1, 2]] * len(d)), need_ctxl=False),
    "no_ctx_for_contextual": _train_entry(lambda s, r, d, w, c: (d, w, None), need_ctxl=True),
    "ctx_1d_array": _train_entry(lambda s, r, d, w, c: (d, w, np.arange(len(d))), need_ctxl=True),
    "ctx_1d_list": _train_entry(lambda s, r, d, w, c: (d, w, list(range(len(d)))), need_ctxl=True),
    "ctx_3d": _train_entry(lambda s, r, d, w, c: (d, w, np.zeros((len(d), 2, 2))), need_ctxl=True),
    "ctx_string": _train_entry(lambda s, r, d, w, c: (d, w, "contexts"), need_ctxl=True),
    "ctx_tuple": _train_entry(lambda s, r, d, w, c: (d, w, tuple(map(tuple, c))), need_ctxl=True),
    "rewards_with_none": _train_entry(lambda s, r, d, w, c: (d, _set(w, len(w) // 2, None), c)),
    "rewards_with_nan": _train_entry(lambda s, r, d, w, c: (d, _set(w, len(w) // 2, float("nan")), c)),
    "rewards_with_inf": _train_entry(lambda s, r, d, w, c: (d, _set(w, 0, float("inf")), c)),
    "rewards_with_neg_inf": _train_entry(lambda s, r, d, w, c: (d, _set(w, len(w) - 1, float("-inf")), c)),
    "rewards_nan_array": _train_entry(lambda s, r, d, w, c: (np.asarray(d), np.asarray(_set([float(x) for x in w], 1,
                                                                                          np.nan)), c)),
    "nonbinary_for_thompson": _train_entry(
        lambda s, r, d, w, c: (d, _set(w, 0, 7), c) if (s.cfg["lp"][0] == "ThompsonSampling"
                                                       and not s.cfg["lp"][1].get("binarizer")) else None),
}


def _other_columns(kind_wanted):
    def b(sess, rnd):
        if not sess.ctxl or not sess.fitted or sess.d is None:
            return None
        n = max(4, sess.min_rows() + 1)
        newd = sess.d + rnd.choice([1, 2]) if (sess.d == 1 or rnd.random() < 0.6) else sess.d - 1
        dec, rew, ctx = _split(_rows(sess, rnd, n, d=newd), True)
        if sess.d == 1 and newd == 2 and len(sess.mab.arms) >= 2:
            # one-feature models: numpy would broadcast the 1x1 matrices against the 2x2 update instead of raising;
            # the last arm gets a single row with equal components, for which the broadcast matrix is singular, so an
            # implementation that does not validate the width updates the earlier arms and then raises for this one
            first, last = sess.mab.arms[0], sess.mab.arms[-1]
            c = rnd.randint(1, 3)
            dec = [first, first, last]
            rew = rew[:3]
            ctx = [[1, 2], [3, -1], [c, c]]
        # put the arms in an order that maximises the chance that some arms are processed before the failing one
        return ("partial_fit", (dec, rew, ctx))
    return b


def _few_rows_for_clusters(sess, rnd):
    npol = sess.cfg.get("np")
    if not npol or npol[0] != "Clusters":
        return None
    n = npol[1]["n_clusters"] - 1
    dec, rew, ctx = _split(_rows(sess, rnd, n), True)
    return ("fit", (dec, rew, ctx))


def _few_rows_other_width(sess, rnd):
    """Rejected for too few rows, and the batch has another number of features (one <-> several) than the fitted model."""
    npol = sess.cfg.get("np")
    if not npol or npol[0] != "Clusters" or not sess.fitted or sess.d is None:
        return None
    n = npol[1]["n_clusters"] - 1
    dec, rew, ctx = _split(_rows(sess, rnd, n, d=(1 if sess.d > 1 else 2)), True)
    return ("fit", (dec, rew, ctx))


def _few_rows_first_partial_fit(sess, rnd):
    """The first training call is a partial_fit that fails INSIDE training (it acts as fit)."""
    npol = sess.cfg.get("np")
    if not npol or npol[0] != "Clusters" or sess.fitted:
        return None
    n = npol[1]["n_clusters"] - 1
    dec, rew, ctx = _split(_rows(sess, rnd, n), True)
    return ("partial_fit", (dec, rew, ctx))


def _q(sess, rnd, m=2):
    return gen.gen_Q(rnd, m, sess.d or 2, "exact")


def _before_fit(kind):
    def b(sess, rnd):
        if sess.fitted:
            return None
        return (kind, (_q(sess, rnd),) if sess.ctxl else ())
    return b


def _query_entry(kind, make, need_ctxl=None, need_fit=True):
    def b(sess, rnd):
        if need_fit and not sess.fitted:
            return None
        if need_ctxl is not None and sess.ctxl != need_ctxl:
            return None
        return (kind, (make(sess, rnd),))
    return b


def _arm_entry(meth, make, cond=None):
    def b(sess, rnd):
        if cond and not cond(sess):
            return None
        return (meth, make(sess, rnd))
    return b


def _is_ts(sess):
    return sess.cfg["lp"][0] == "ThompsonSampling"


def _feats(sess, rnd, dim=2):
    return {a: [rnd.randint(1, 3) for _ in range(dim)] for a in sess.mab.arms}


def _unknown_arm(sess):
    pool = gen.ARM_POOLS["int"] + gen.ARM_POOLS["str"] + gen.ARM_POOLS["float"]
    return next(a for a in pool if a not in sess.mab.arms and type(a) is type(sess.mab.arms[0]))


CATALOGUE = {}
for _k in ("fit", "partial_fit"):
    for _n, _b in TRAIN.items():
        CATALOGUE["%s.%s" % (_k, _n)] = _b(_k)
CATALOGUE.update({
    "partial_fit.other_column_count": _other_columns("partial_fit"),
    "fit.fewer_rows_than_clusters": _few_rows_for_clusters,
    "fit.fewer_rows_than_clusters_other_width": _few_rows_other_width,
    "partial_fit.first_call_fewer_rows_than_clusters": _few_rows_first_partial_fit,
    "predict.before_fit": _before_fit("predict"),
    "predict_expectations.before_fit": _before_fit("predict_expectations"),
    "predict.contexts_missing": lambda s, r: ("predict", ()) if (s.fitted and s.ctxl) else None,
    "predict_expectations.contexts_missing": lambda s, r: ("predict_expectations", ()) if (s.fitted and s.ctxl) else None,
    "predict.contexts_string": _query_entry("predict", lambda s, r: "ctx"),
    "predict_expectations.contexts_set": _query_entry("predict_expectations", lambda s, r: {1, 2}),
    "predict.contexts_1d": _query_entry("predict", lambda s, r: np.arange(s.d or 2), need_ctxl=True),
    "predict_expectations.contexts_1d_list": _query_entry("predict_expectations", lambda s, r: list(range(s.d or 2)),
                                                          need_ctxl=True),
    "predict.contexts_3d": _query_entry("predict", lambda s, r: np.zeros((2, s.d or 2, 1)), need_ctxl=True),
    "predict.contexts_1d_context_free": _query_entry("predict", lambda s, r: np.arange(3), need_ctxl=False),
    "add_arm.existing": _arm_entry("add_arm", lambda s, r: (s.mab.arms[r.randrange(len(s.mab.arms))],)),
    "add_arm.none": _arm_entry("add_arm", lambda s, r: (None,)),
    "add_arm.nan": _arm_entry("add_arm", lambda s, r: (np.nan,)),
    "add_arm.inf": _arm_entry("add_arm", lambda s, r: (np.inf,)),
    "add_arm.binarizer_for_non_thompson": _arm_entry("add_arm", lambda s, r: (_unknown_arm(s), gt10),
                                                     cond=lambda s: not _is_ts(s)),
    "add_arm.binarizer_not_callable": _arm_entry("add_arm", lambda s, r: (_unknown_arm(s), "not callable"), cond=_is_ts),
    "remove_arm.unknown": _arm_entry("remove_arm", lambda s, r: (_unknown_arm(s),)),
    "remove_arm.none": _arm_entry("remove_arm", lambda s, r: (None,)),
    "remove_arm.nan": _arm_entry("remove_arm", lambda s, r: (np.nan,)),
    "remove_arm.inf": _arm_entry("remove_arm", lambda s, r: (np.inf,)),
    "warm_start.features_list": _arm_entry("warm_start", lambda s, r: (list(_feats(s, r).items()), 0.5)),
    "warm_start.quantile_int": _arm_entry("warm_start", lambda s, r: (_feats(s, r), 1)),
    "warm_start.quantile_above_one": _arm_entry("warm_start", lambda s, r: (_feats(s, r), 1.5)),
    "warm_start.quantile_negative": _arm_entry("warm_start", lambda s, r: (_feats(s, r), -0.25)),
    "warm_start.arm_missing": _arm_entry("warm_start", lambda s, r: (dict(list(_feats(s, r).items())[:-1]), 0.5)),
    "warm_start.extra_arm": _arm_entry("warm_start", lambda s, r: (dict(_feats(s, r), **{str(_unknown_arm(s)) + "x": [1, 1]})
                                                                 , 0.5)),
    "warm_start.changed_features_bad_last_vector": _arm_entry(
        "warm_start", lambda s, r: ({a: ([r.randint(-3, 3) + r.choice([0, 0.25]), r.randint(1, 3)] if i < len(s.mab.arms) - 1
                                         else [1, 2, 3]) for i, a in enumerate(s.mab.arms)}, 1.0),
        cond=lambda s: s.cfg.get("np") is None and s.cfg["lp"][0] != "Random" and s.fitted and len(s.mab.arms) >= 3),
    "warm_start.unequal_vector_lengths": _arm_entry(
        "warm_start", lambda s, r: ({a: [1] * (2 + (i % 2)) for i, a in enumerate(s.mab.arms)}, 0.75),
        cond=lambda s: s.cfg.get("np") is None and s.cfg["lp"][0] != "Random" and s.fitted),
})

# Valid calls: on the unchanged tree none of them raises ("not rejected": no claim, the run ends). They are in the catalogue
# because the property speaks about EVERY call the library rejects: a change that makes one of them raise after part of
# its effect has been applied (e.g. a new check placed after MAB.add_arm appended the arm) is a violation.
def _valid_train(kind):
    def b(sess, rnd):
        n = max(3, sess.min_rows() + 1)
        dec, rew, ctx = _split(_rows(sess, rnd, n), sess.ctxl)
        return (kind, (dec, rew, ctx) if sess.ctxl else (dec, rew))
    return b


CATALOGUE.update({
    "valid.fit": _valid_train("fit"),
    "valid.partial_fit": _valid_train("partial_fit"),
    "valid.add_arm": _arm_entry("add_arm", lambda s, r: (_unknown_arm(s),)),
    "valid.add_arm_with_binarizer": _arm_entry("add_arm", lambda s, r: (_unknown_arm(s), gt10), cond=_is_ts),
    "valid.remove_arm": _arm_entry("remove_arm", lambda s, r: (s.mab.arms[r.randrange(len(s.mab.arms))],),
                                   cond=lambda s: len(s.mab.arms) > 2),
    "valid.warm_start": _arm_entry("warm_start", lambda s, r: (_feats(s, r), 0.5),
                                   cond=lambda s: s.fitted or not s.ctxl),
})
# (no "valid.predict": errors surfacing from prediction - e.g. empty-neighbourhood weights whose length no longer matches the
#  arms - happen after the per-row seeds were drawn; the property's list covers invalid arguments and TRAINING shape errors)

INIT_BAD = {
    "arms_not_list": lambda c: dict(c, arms=tuple(c["arms"])),
    "arms_with_none": lambda c: dict(c, arms=list(c["arms"]) + [None]),
    "arms_with_nan": lambda c: dict(c, arms=list(c["arms"]) + [np.nan]),
    "arms_with_inf": lambda c: dict(c, arms=list(c["arms"]) + [np.inf]),
    "arms_duplicate": lambda c: dict(c, arms=list(c["arms"]) + [c["arms"][0]]),
    "lp_wrong_type": lambda c: dict(c, lp_obj="EpsilonGreedy"),
    "np_wrong_type": lambda c: dict(c, np_obj="Radius"),
    "seed_float": lambda c: dict(c, seed=1.5),
    "n_jobs_zero": lambda c: dict(c, n_jobs=0),
    "n_jobs_float": lambda c: dict(c, n_jobs=1.0),
    "backend_int": lambda c: dict(c, backend=3),
    "lp_bad_value": lambda c: dict(c, lp_bad=True),
    "np_bad_value": lambda c: dict(c, np_bad=True),
}
for _n in INIT_BAD:
    CATALOGUE["__init__." + _n] = None      # handled separately
ENTRIES = sorted(CATALOGUE)
QUICK_RUNS = len(COMBOS) * len(ENTRIES) * len(POSITIONS)
CHUNK = 120
EXPECTED_PROBES = ["fault.rejected_call", "fault.shape_error_inside_training", "probe.position.before_fit",
                   "probe.position.after_warm_start"]

_BAD_LP = {"EpsilonGreedy": {"epsilon": 2}, "UCB1": {"alpha": -1}, "Softmax": {"tau": 0}, "ThompsonSampling":
           {"binarizer": "x"}, "LinGreedy": {"epsilon": -0.1}, "LinTS": {"alpha": 0}, "LinUCB": {"l2_lambda": "1"}}
_BAD_NP = {"Radius": {"radius": 0}, "KNearest": {"k": 0}, "LSHNearest": {"n_tables": 0}, "Clusters": {"n_clusters": 1},
           "TreeBandit": {"tree_parameters": {"no_such_parameter": 1}}}


def _cfg_for(rnd, lpname, npname):
    lp = gen.gen_lp(rnd, lpname)
    kind, arms, spare = gen.gen_arms(rnd, hi=4)
    np_ = gen.gen_np(rnd, lpname, len(arms), name=npname, allow_probs=True) if npname else None
    return {"arms": arms, "lp": lp, "np": np_, "seed": rnd.randrange(2 ** 20), "n_jobs": 1, "backend": None}, spare


def generate(rnd, tier, index=0):
    if tier == "quick" or index < QUICK_RUNS:
        combo = COMBOS[index % len(COMBOS)]
        entry = ENTRIES[(index // len(COMBOS)) % len(ENTRIES)]
        pos = POSITIONS[(index // (len(COMBOS) * len(ENTRIES))) % len(POSITIONS)]
    else:
        combo, entry, pos = rnd.choice(COMBOS), rnd.choice(ENTRIES), rnd.choice(POSITIONS)
    cfg, spare = _cfg_for(rnd, *combo)
    fault_sched = None
    if rnd.random() < 0.3:
        # the rejected call runs with n_jobs > 1 under a seeded worker schedule: a shape error surfacing inside parallel
        # training meets arms that other workers have (or have not yet) updated
        cfg["n_jobs"] = rnd.choice([2, 3, -1])
        cfg["backend"] = rnd.choice([None, "threading"])
        fault_sched = kernel.Sched.draw(rnd)
    ctxl = is_contextual(cfg)
    d = rnd.randint(1, 3)
    if entry == "partial_fit.other_column_count" and rnd.random() < 0.5:
        d = 1
    sess_need = 2
    if cfg["np"] and cfg["np"][0] == "KNearest":
        sess_need = cfg["np"][1]["k"]
    if cfg["np"] and cfg["np"][0] == "Clusters":
        sess_need = cfg["np"][1]["n_clusters"] + 1
    rk = "binary" if cfg["lp"][0] == "ThompsonSampling" else ("nonneg" if cfg["lp"][0] == "Popularity" else "smallint")
    arms = list(cfg["arms"])

    def rows(n, omit=None):
        return gen.gen_rows(rnd, arms, max(n, sess_need), d, "exact", rk, ctxl, omit=omit)
    prefix = []
    if tier == "thorough" and index >= QUICK_RUNS and rnd.random() < 0.7:
        prefix = gen.gen_history(rnd, cfg, spare, d, "exact", rnd.randint(1, 6), warm=True, max_rows=10, rkind=rk)
        arms = list(cfg["arms"])
        for op in prefix:
            if op["op"] == "add_arm":
                arms.append(op["arm"])
            if op["op"] == "remove_arm":
                arms.remove(op["arm"])
        pos = "random_history"
    elif pos != "before_fit":
        # leave the FIRST arm (in arm order) unobserved: partial updates performed before a later arm fails show up
        prefix.append({"op": "fit", "rows": rows(rnd.randint(4, 10), omit={arms[0]} if rnd.random() < 0.6 else None)})
        if pos in ("after_partial_fit", "after_arm_change", "after_warm_start"):
            prefix.append({"op": "partial_fit", "rows": rows(rnd.randint(1, 6), omit={arms[0]} if rnd.random() < 0.5 else None)})
        if pos == "after_arm_change":
            if rnd.random() < 0.6 and spare:
                a = spare.pop(0)
                prefix.append({"op": "add_arm", "arm": a})
                arms.append(a)
            elif len(arms) > 2:
                a = arms.pop(rnd.randrange(len(arms)))
                prefix.append({"op": "remove_arm", "arm": a})
            else:
                a = spare.pop(0)
                prefix.append({"op": "add_arm", "arm": a})
                arms.append(a)
        if pos == "after_warm_start":
            prefix.append(gen.gen_warm(rnd, arms))
    cont = []
    if pos == "before_fit":
        cont.append({"op": "fit", "rows": rows(rnd.randint(4, 10))})
    cont.append({"op": "partial_fit", "rows": rows(rnd.randint(2, 6))})
    Q = gen.gen_Q(rnd, rnd.randint(1, 3), d, "exact") if ctxl else None
    cont.append({"op": "expect", "Q": Q})
    cont.append({"op": "predict", "Q": Q})
    if rnd.random() < 0.5:
        cont.append({"op": "partial_fit", "rows": rows(rnd.randint(1, 4))})
        cont.append({"op": "expect", "Q": Q})
    if ctxl and rnd.random() < 0.5:
        # "every later sequence of calls": one context handed over as a pandas Series (its interpretation as one row or
        # one column depends on what the bandit remembers about the number of features)
        cont.append({"op": "expect", "Q": [Q[0]], "container": "series_auto"})
    return {"cfg": cfg, "ops": prefix, "entry": entry, "eseed": rnd.randrange(2 ** 30), "cont": cont, "pos": pos,
            "fault_sched": fault_sched}


def shrink_paths(case):
    return [("cont",), ("ops",)]


KEEP_MIN = {"cont": 1}


def _init_fault(case, ctx, P, R):
    """__init__ with invalid arguments: must raise and leave the (shared) policy objects untouched."""
    import pickle
    from mabwiser.mab import MAB
    cfg = case["cfg"]
    name = case["entry"].split(".", 1)[1]
    lp_obj, np_obj = make_lp(cfg["lp"]), make_np(cfg["np"])
    bad = INIT_BAD[name](dict(cfg))
    if bad.get("lp_bad"):
        if cfg["lp"][0] not in _BAD_LP:
            return None
        lp_bad = getattr(type(lp_obj), "_make")(list(_merge(lp_obj, _BAD_LP[cfg["lp"][0]]).values()))
    else:
        lp_bad = bad.get("lp_obj", lp_obj)
    if bad.get("np_bad"):
        if not cfg["np"] or cfg["np"][0] not in _BAD_NP:
            return None
        np_bad = type(np_obj)._make(list(_merge(np_obj, _BAD_NP[cfg["np"][0]]).values()))
    else:
        np_bad = bad.get("np_obj", np_obj)
    snap = pickle.dumps((lp_obj, np_obj), protocol=4) if not _has_callable(lp_obj) else repr((lp_obj, np_obj))
    try:
        MAB(bad["arms"], lp_bad, np_bad, bad["seed"], bad["n_jobs"], bad["backend"])
        return False
    except Exception as e:   # noqa
        ctx.ev("rejected", case["entry"], type(e).__name__)
    after = pickle.dumps((lp_obj, np_obj), protocol=4) if not _has_callable(lp_obj) else repr((lp_obj, np_obj))
    if snap != after:
        ctx.violate("policy-object-modified-by-rejected-init", len(case["ops"]), {"entry": case["entry"]})
    return True


def _merge(nt, kw):
    d = nt._asdict()
    d.update(kw)
    return d


def _has_callable(lp_obj):
    return any(callable(v) for v in lp_obj)


def execute(case, ctx):
    cfg = case["cfg"]
    P = Session(cfg)
    for step, op in enumerate(case["ops"]):
        ctx.ev("op", op["op"], step)
        ctx.fired("ops")
        r = P.apply(op)
        if r[0] == "ok" and op["op"] in ("fit", "partial_fit"):
            ctx.fired("ops.train")
    n0 = len(case["ops"])
    ctx.fired("probe.position." + case.get("pos", "?"))
    R = P.clone("deepcopy")
    entry = case["entry"]
    ctx.ev("op", "FAULT:" + entry, n0)
    if entry.startswith("__init__."):
        res = _init_fault(case, ctx, P, R)
        if res is None:
            ctx.fired("probe.entry_not_applicable")
            return
        if res is False:
            ctx.fired("probe.not_rejected." + entry)
            return
        ctx.fired("fault.rejected_call")
        raised = True
    else:
        builder = CATALOGUE[entry]
        call = builder(P, random.Random(case["eseed"]))
        if call is None:
            ctx.fired("probe.entry_not_applicable")
            return
        meth, args = call
        arms_before = list(P.mab.arms)
        if case.get("fault_sched"):
            ctx.sched = kernel.Sched.from_json(case["fault_sched"])
            ctx.parallel_calls = 0
        try:
            getattr(P.mab, meth)(*args)
            raised = False
        except kernel.HarnessError:
            raise
        except Exception as e:   # noqa
            raised = True
            ctx.ev("rejected", entry, type(e).__name__)
        finally:
            ctx.sched = None
        if not raised:
            # no claim: keep both comparable by making the same call on the copy
            ctx.fired("probe.not_rejected." + entry)
            meth2, args2 = builder(R, random.Random(case["eseed"]))
            try:
                getattr(R.mab, meth2)(*args2)
            except Exception:
                pass
            return
        ctx.fired("fault.rejected_call")
        if entry in ("partial_fit.other_column_count", "fit.fewer_rows_than_clusters", "fit.fewer_rows_than_clusters_other_width",
                     "partial_fit.first_call_fewer_rows_than_clusters"):
            ctx.fired("fault.shape_error_inside_training")
        ctx.fired("oracle.comparisons")
        if list(P.mab.arms) != arms_before:
            ctx.violate("arms-changed-by-rejected-call", n0, {"entry": entry, "before": arms_before,
                                                              "after": list(P.mab.arms)}, entry=entry.split(".")[0])
            return
    # state must be exactly as before
    ctx.fired("oracle.comparisons")
    d = diff(pview(P.mab), pview(R.mab))
    if d:
        ctx.violate("state-changed-by-rejected-call", n0, {"entry": entry, "diff": d}, entry=entry)
        return
    if stream_states(P.mab) != stream_states(R.mab):
        ctx.violate("random-stream-advanced-by-rejected-call", n0, {"entry": entry}, entry=entry)
        return
    if not entry.startswith("__init__.") and meth == "warm_start" and args and isinstance(args[0], dict) and args[0]:
        # the corrected call: the same arm features as in the rejected call wherever they were usable (a repaired vector
        # where they were not), delivered to both bandits
        lens = [len(v) for v in args[0].values() if isinstance(v, list)]
        if lens:
            L = max(set(lens), key=lens.count)
            fixed = {a: (list(args[0][a]) if isinstance(args[0].get(a), list) and len(args[0][a]) == L else [1] * L)
                     for a in P.mab.arms}
            outs = []
            for S in (P, R):
                try:
                    S.mab.warm_start({a: list(v) for a, v in fixed.items()}, 1.0)
                    outs.append("ok")
                except Exception as e:   # noqa
                    outs.append(type(e).__name__)
            ctx.fired("probe.corrected_warm_start_after_rejected_one")
            ctx.fired("oracle.comparisons")
            d = None if outs[0] == outs[1] else "status %s vs %s" % tuple(outs)
            d = d or diff(pview(P.mab), pview(R.mab))
            if d:
                ctx.violate("continuation-model-differs", n0, {"entry": entry, "diff": d, "after": "corrected warm_start"},
                            entry=entry)
                return
    # continuation without any re-synchronisation
    for j, op in enumerate(case["cont"]):
        step = n0 + 1 + j
        ctx.ev("op", "cont-" + op["op"], step)
        ctx.fired("ops")
        rp = P.apply(op, container=op.get("container", "list"))
        rr = R.apply(op, container=op.get("container", "list"))
        if rp[0] == "ok" and op["op"] in ("fit", "partial_fit"):
            ctx.fired("ops.train")
        ctx.fired("oracle.comparisons")
        c = compare_results(rp, rr)
        if c:
            ctx.violate("continuation-%s-differ" % c[0], step, {"entry": entry, "op": op["op"], "diff": c[1]}, entry=entry)
            return
        if op["op"] in ("fit", "partial_fit"):
            d = diff(pview(P.mab), pview(R.mab))
            if d:
                ctx.violate("continuation-model-differs", step, {"entry": entry, "diff": d}, entry=entry)
                return
