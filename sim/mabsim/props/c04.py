"""C04 -- seeded runs are reproducible and bandit instances are isolated.

A scripted scenario for bandit A is executed (a) alone, (b) with interference: other bandits B (other seeds, default-
constructed policy tuples, the very same policy-tuple objects) are constructed / trained / queried between any two steps of
A -- especially between A's construction and its first fit, (c) as twins driven in lock-step and in skewed order in one
process, (d) in OTHER interpreter processes with PYTHONHASHSEED=1 and =random, alone and with interference. All output
sequences of A must be identical. TreeBandit scenarios train on data with tied split candidates (duplicated and mirrored
columns) and query off that manifold, so that the trees' random_state is observable.
"""
import random

from .. import gen, kernel
from ..restore_server import client_call
from ..world import CLUSTER_LPS, CONTEXT_FREE, LINEAR, TREE_LPS, Session, is_contextual

ID = "C04"
LEVEL = "exploration"
USES_SERVERS = True       # helper interpreters are restarted for every execution made while minimising / replaying
SHRINK_EXEC = 16         # every execution made while minimising starts fresh helper interpreters (~3 s)
QUICK_RUNS = 1600
CHUNK = 10
RULE = ("Each run: drawn policy combination (default-constructed and shared policy tuples included), seed, call history; "
        "an interference script places the construction / training / querying of other bandits between A's steps; the "
        "same scenario is executed in this process (alone, interfered, twins lock-step and skewed) and in two other "
        "interpreter processes with other hash seeds (alone and interfered).")
EXPECTED_PROBES = ["fault.interfere", "probe.interfere_between_construction_and_fit", "probe.default_constructed_policy",
                   "probe.shared_policy_tuple", "probe.other_process.hashseed_1", "probe.other_process.hashseed_random",
                   "probe.tree_tied_splits"]
REAL_EXTRA = ["two further interpreter processes with PYTHONHASHSEED=1 and =random"]
DEFAULT_OK = {"EpsilonGreedy", "UCB1", "Softmax", "Popularity", "Random", "ThompsonSampling", "LinGreedy", "LinTS",
              "LinUCB"}


def _tree_rows(rnd, arms, n, base):
    """Rows whose columns are duplicated and mirrored: [x, x, -x, ...] -> tied split candidates."""
    rows = []
    for _ in range(n):
        x = [rnd.randint(-3, 3) for _ in range(base)]
        ctx = []
        for v in x:
            ctx += [v, v, -v]
        rows.append([rnd.choice(arms), rnd.randint(0, 1), ctx])
    return rows


def generate(rnd, tier, index=0):
    cfg, spare = gen.gen_cfg(rnd, with_np=rnd.random() < 0.8, allow_probs=True)
    if rnd.random() < 0.3:      # the combination with process-global state behind it gets a fixed share of the runs
        cfg["lp"] = gen.gen_lp(rnd, names=TREE_LPS)
        cfg["np"] = gen.gen_np(rnd, cfg["lp"][0], len(cfg["arms"]), name="TreeBandit")
    tree = bool(cfg["np"] and cfg["np"][0] == "TreeBandit")
    # share_query: every bandit of the process is handed the SAME ndarray object as query contexts (a caller evaluating
    # several bandits on one pre-allocated test array)
    flags = {"default_np": False, "default_lp": False, "share": rnd.random() < 0.5, "share_query": rnd.random() < 0.35}
    if cfg["np"] and rnd.random() < (0.7 if tree else 0.3):
        flags["default_np"] = True
        cfg["np"] = [cfg["np"][0], {}]
    if rnd.random() < 0.3 and cfg["lp"][0] in DEFAULT_OK:
        flags["default_lp"] = True
        cfg["lp"] = [cfg["lp"][0], {}]
    warm_scn = (not tree) and rnd.random() < 0.2
    if warm_scn and rnd.random() < 0.6 and not isinstance(cfg["arms"][0], str):
        k = len(cfg["arms"])
        pool = list(gen.ARM_POOLS["str"])
        rnd.shuffle(pool)
        cfg["arms"], spare = pool[:k], pool[k:]         # set/dict iteration order of strings depends on the hash seed
    if warm_scn:
        # warm-start scenario: a warm-start capable policy with cold arms; the other bandits warm-start with the SAME arm
        # features and another quantile before A does (process-global caches keyed too coarsely show here)
        cfg["np"] = None
        flags["default_np"] = False
    ctxl = is_contextual(cfg)
    base = rnd.randint(1, 2)
    d = 3 * base if tree else rnd.randint(1, 3)
    regime = "exact"
    if tree:
        arms_now = list(cfg["arms"])
        ops = [{"op": "fit", "rows": _tree_rows(rnd, arms_now, rnd.randint(8, 24), base)}]
        for _ in range(rnd.randint(2, 7)):
            u = rnd.random()
            if u < 0.2 and spare:
                # an arm added after fit gets its tree later, from a partial_fit (its own random_state matters too)
                a = spare.pop(0)
                arms_now.append(a)
                ops.append({"op": "add_arm", "arm": a})
                ops.append({"op": "partial_fit", "rows": _tree_rows(rnd, [a], rnd.randint(6, 12), base) +
                            _tree_rows(rnd, arms_now, rnd.randint(0, 4), base)})
            elif u < 0.45:
                ops.append({"op": "partial_fit", "rows": _tree_rows(rnd, arms_now, rnd.randint(2, 8), base)})
            else:
                ops.append({"op": rnd.choice(["predict", "expect"]), "Q": gen.gen_Q(rnd, rnd.randint(1, 5), d, "exact")})
        ops.append({"op": "expect", "Q": gen.gen_Q(rnd, rnd.randint(2, 6), d, "exact")})
    else:
        if cfg["np"] and cfg["np"][0] == "KNearest" and flags["default_np"]:
            pass
        ops = gen.gen_history(rnd, cfg, spare, d, regime, rnd.randint(3, 10), warm=True, max_rows=12)
    if warm_scn:
        arms = list(cfg["arms"])
        rk = "binary" if cfg["lp"][0] == "ThompsonSampling" else "nonneg"
        trained = arms[:max(1, len(arms) // 2)]
        w = gen.gen_warm(rnd, arms, dim=2)
        w["q"] = rnd.choice([0.0, 0.25, 0.5])
        if len(trained) >= 2 and len(arms) > len(trained) and rnd.random() < 0.7:
            # an exact tie: two trained arms with the same direction, a cold arm in that direction too (cosine distance 0
            # to both) - which of the two it copies must not depend on anything but the arm order
            f = dict((a, v) for a, v in w["features"])
            v = [rnd.randint(1, 3), rnd.randint(1, 3)]
            t1, t2 = rnd.sample(trained, 2)
            cold = rnd.choice(arms[len(trained):])
            f[t1], f[t2], f[cold] = list(v), [2 * x for x in v], [3 * x for x in v]
            w["features"] = [[a, f[a]] for a in arms]
            w["q"] = 1.0 if rnd.random() < 0.5 else w["q"]
        Q = gen.gen_Q(rnd, 2, d, "exact") if ctxl else None
        ops = [{"op": "fit", "rows": gen.gen_rows(rnd, trained, rnd.randint(4, 10), d, "exact", rk, ctxl)},
               w, {"op": "expect", "Q": Q}, {"op": "predict", "Q": Q}]
    if rnd.random() < 0.3 and spare and not warm_scn:
        ops.insert(0, {"op": "add_arm", "arm": spare[-1]})        # something between construction and first fit
    interf = []
    for i in range(len(ops) + 1):
        if rnd.random() < (0.8 if i <= 1 else 0.25):
            interf.append({"at": i, "seed": rnd.randrange(2 ** 20), "n": rnd.randint(6, 16),
                           "steps": rnd.choice([["construct"], ["construct", "fit"], ["construct", "fit", "predict"]])})
    if warm_scn:
        for it in interf:
            it["steps"] = ["construct", "fit", "predict"]
        if not any(it["at"] <= 1 for it in interf):
            interf.insert(0, {"at": 1, "seed": rnd.randrange(2 ** 20), "n": 8, "steps": ["construct", "fit", "predict"]})
    return {"cfg": cfg, "flags": flags, "ops": ops, "interf": interf, "d": d, "tree": tree, "base": base}


def shrink_paths(case):
    return [("interf",), ("ops",)]


def _policy_objects(cfg, flags):
    from mabwiser.mab import LearningPolicy, NeighborhoodPolicy
    from ..world import make_lp, make_np
    lp = getattr(LearningPolicy, cfg["lp"][0])() if flags.get("default_lp") else make_lp(cfg["lp"])
    if cfg["np"] is None:
        np_ = None
    elif flags.get("default_np"):
        np_ = getattr(NeighborhoodPolicy, cfg["np"][0])()
    else:
        np_ = make_np(cfg["np"])
    return lp, np_


def _construct(cfg, flags, seed, objs=None):
    from mabwiser.mab import MAB
    lp, np_ = objs if objs is not None else _policy_objects(cfg, flags)
    return MAB(list(cfg["arms"]), lp, np_, seed=seed, n_jobs=cfg.get("n_jobs", 1), backend=cfg.get("backend"))


def _interfere(case, item, shared_objs, stats, pool=None, next_q=None):
    cfg, flags = case["cfg"], case["flags"]
    rnd = random.Random(item["seed"])
    objs = shared_objs if flags.get("share") else None
    try:
        B = Session(cfg, mab=_construct(cfg, flags, item["seed"], objs))
        if "fit" in item["steps"]:
            if case.get("tree"):
                rows = _tree_rows(rnd, list(cfg["arms"]), max(item["n"], 6), case["base"])
            else:
                rk = "binary" if cfg["lp"][0] == "ThompsonSampling" else "nonneg"
                rows = gen.gen_rows(rnd, list(cfg["arms"]), max(item["n"], B.min_rows() + 2), case["d"], "exact", rk, B.ctxl)
            B.apply({"op": "fit", "rows": rows})
            if "predict" in item["steps"]:
                B.apply({"op": "predict", "Q": [rows[0][2], rows[-1][2]] if B.ctxl else None})
                B.apply({"op": "expect", "Q": [rows[0][2]] if B.ctxl else None})
                if pool is not None and next_q is not None and B.ctxl:
                    # the other bandit is asked about the very array object that A is handed next
                    B._pool = pool
                    B.apply({"op": "predict", "Q": next_q}, container="reuse:ndarray")
                    stats["interfere_shared_query"] = stats.get("interfere_shared_query", 0) + 1
            # the other bandit also warm-starts with the SAME arm features as A but another quantile
            for wop in [o for o in case["ops"] if o["op"] == "warm_start"][:2]:
                B.apply(dict(wop, q=rnd.choice([q for q in (0.0, 0.5, 1.0) if q != wop["q"]])))
                stats["interfere_warm"] = stats.get("interfere_warm", 0) + 1
    except Exception:
        stats["interfere_exc"] = stats.get("interfere_exc", 0) + 1


def run_A(case, interfere):
    """Outputs of bandit A (canonical form), alone or with the interference script. Runs in any interpreter."""
    cfg, flags = case["cfg"], case["flags"]
    stats = {}
    objs = _policy_objects(cfg, flags)
    A = Session(cfg, mab=_construct(cfg, flags, cfg["seed"], objs))
    outs = []
    by_at = {}
    for it in case["interf"]:
        by_at.setdefault(it["at"], []).append(it)
    shareq = bool(flags.get("share_query"))
    for i, op in enumerate(case["ops"]):
        if interfere:
            nq = next((o.get("Q") for o in case["ops"][i:] if o["op"] in ("predict", "expect") and o.get("Q")), None)
            for it in by_at.get(i, []):
                _interfere(case, it, objs, stats, pool=A._pool if shareq else None, next_q=nq)
        r = A.apply(op, container="reuse:ndarray" if (shareq and op["op"] in ("predict", "expect")) else "list")
        outs.append([r[0], kernel.canon(r[1])])
    if interfere:
        for it in by_at.get(len(case["ops"]), []):
            _interfere(case, it, objs, stats)
    return outs


def run_twins(case, skew):
    cfg, flags = case["cfg"], case["flags"]
    objs = _policy_objects(cfg, flags) if flags.get("share") else None
    A1 = Session(cfg, mab=_construct(cfg, flags, cfg["seed"], objs))
    A2 = Session(cfg, mab=_construct(cfg, flags, cfg["seed"], objs))
    o1, o2 = [], []
    ops = case["ops"]
    if flags.get("share_query"):
        # both twins are handed the same query array objects
        A2._pool = A1._pool
        real1, real2 = A1.apply, A2.apply
        A1.apply = lambda op: real1(op, container="reuse:ndarray" if op["op"] in ("predict", "expect") else "list")
        A2.apply = lambda op: real2(op, container="reuse:ndarray" if op["op"] in ("predict", "expect") else "list")
    if skew == 0:
        for op in ops:
            r1, r2 = A1.apply(op), A2.apply(op)
            o1.append([r1[0], kernel.canon(r1[1])])
            o2.append([r2[0], kernel.canon(r2[1])])
    else:
        lead = min(skew, len(ops))
        for op in ops[:lead]:
            r1 = A1.apply(op)
            o1.append([r1[0], kernel.canon(r1[1])])
        for j, op in enumerate(ops):
            r2 = A2.apply(op)
            o2.append([r2[0], kernel.canon(r2[1])])
            if lead + j < len(ops):
                r1 = A1.apply(ops[lead + j])
                o1.append([r1[0], kernel.canon(r1[1])])
    return o1, o2


def _first_diff(a, b):
    for i, (x, y) in enumerate(zip(a, b)):
        if x != y:
            return i
    return min(len(a), len(b)) if len(a) != len(b) else None


def execute(case, ctx):
    cfg, flags = case["cfg"], case["flags"]
    for op in case["ops"]:
        ctx.ev("op", op["op"])
        ctx.fired("ops")
        if op["op"] in ("fit", "partial_fit"):
            ctx.fired("ops.train")
    if flags.get("default_np") or flags.get("default_lp"):
        ctx.fired("probe.default_constructed_policy")
    if flags.get("share"):
        ctx.fired("probe.shared_policy_tuple")
    if case.get("tree"):
        ctx.fired("probe.tree_tied_splits")
    for it in case["interf"]:
        ctx.fired("fault.interfere")
        ctx.ev("fault", "interfere", it["at"], it["steps"])
        first_fit = next((i for i, o in enumerate(case["ops"]) if o["op"] in ("fit", "partial_fit")), 0)
        if it["at"] <= first_fit:
            ctx.fired("probe.interfere_between_construction_and_fit")
    alone = run_A(case, False)
    ctx.ev("alone", alone)

    def check(name, outs, **sig):
        ctx.fired("oracle.comparisons")
        i = _first_diff(alone, outs)
        if i is not None:
            ctx.violate(name, i, {"op": case["ops"][i]["op"] if i < len(case["ops"]) else None,
                                  "alone": alone[i] if i < len(alone) else None,
                                  "other": outs[i] if i < len(outs) else None}, **sig)
            return False
        return True
    from .. import seams
    seams.reset_shared_defaults()
    if not check("differs-when-other-bandits-interfere", run_A(case, True)):
        return
    seams.reset_shared_defaults()
    if not check("differs-on-repetition-in-same-process", run_A(case, False)):
        return
    for skew in (0, 1 + (kernel.H(cfg["seed"]) % 3)):
        seams.reset_shared_defaults()
        o1, o2 = run_twins(case, skew)
        if not check("twin-differs", o1, skew=("lockstep" if skew == 0 else "skewed")):
            return
        if not check("twin-differs", o2, skew=("lockstep" if skew == 0 else "skewed")):
            return
    if case.get("no_xproc"):
        return
    for hs in ("1", "random"):
        # one of the other interpreters executes the interfered scenario BEFORE it has ever run A alone: process-global
        # state that the first user of some key fills in (a cache) then comes from the other bandits
        for interfere in ((True, False) if hs == "1" else (False, True)):
            res = client_call({"kind": "call", "module": "mabsim.props.c04", "func": "run_A", "args": [case, interfere]},
                              hashseed=hs)
            if "error" in res:
                raise kernel.HarnessError("other interpreter failed: " + res["error"][-800:])
            ctx.fired("probe.other_process.hashseed_" + hs)
            if not check("differs-in-other-process", res["result"], hashseed=hs, interfered=str(interfere)):
                return
