"""C16 -- Simulator bookkeeping is a faithful account of the data (conservation / exactly-once over batches, chunks and
workers, checked on the same simulated Simulator runs as C15, including F-KNOB chunk budgets and random partitions)."""
import math

import numpy as np

from ..simworld import generate, run_simulator, shrink_paths, simplify, split_indices, KEEP_MIN  # noqa: F401
from ..world import diff

ID = "C16"
LEVEL = "exploration"
QUICK_RUNS = 1920
CHUNK = 10
RULE = ("Same simulated runs as C15 (1-4 bandits, drawn data with arms absent from train or test, batch sizes that do and "
        "do not divide the test size, is_quick, chunk budget knob, seeded worker schedule and partitions); oracle: "
        "partition of the rows, one prediction per test row, statistics recomputed directly, default evaluation "
        "recomputed independently, counts sum to |test|, min <= mean <= max.")
EXPECTED_PROBES = ["knob.multi_chunk", "probe.arm_absent_from_train", "probe.arm_absent_from_test",
                   "probe.batch_does_not_divide_test", "probe.neighbourhood_statistic_used"]


def _stats(values):
    a = np.asarray(values)
    if a.size == 0:
        return None
    return {"count": int(a.size), "sum": a.sum(), "min": a.min(), "max": a.max(), "mean": a.mean(), "std": a.std()}


def _arm_stats(arms, dec, rew):
    out = {}
    for a in arms:
        vals = [r for d, r in zip(dec, rew) if d == a]
        out[a] = _stats(vals) or {"count": 0, "sum": 0, "min": 0, "max": 0, "mean": 0, "std": 0}
    return out


def _nn_reference(cfg, run, tr, te, arms, ctx):
    from scipy.spatial.distance import cdist
    npname, kw = cfg["np"]
    metric = kw.get("metric", "euclidean")
    X = np.asarray(run.ctxs, dtype=float)
    stored = list(tr)
    batch = run.batch or len(te)
    out = []
    for s in range(0, len(te), batch):
        block = te[s:s + batch]
        for i in block:
            try:
                D = cdist(X[stored], X[[i]], metric=metric)[:, 0]
            except Exception:
                out.append(None)
                continue
            if not np.all(np.isfinite(D)):
                out.append(None)
                continue
            if npname == "Radius":
                r = kw["radius"]
                if np.any(np.abs(D - r) <= 1e-9 * max(1.0, abs(r))) and not float(r).is_integer():
                    ctx.fired("probe.nn_reference_ambiguous_row_skipped")
                    out.append(None)
                    continue
                members = [stored[j] for j in range(len(stored)) if D[j] <= r]
            else:
                k = kw["k"]
                order = np.argsort(D, kind="stable")
                if len(order) > k and abs(D[order[k - 1]] - D[order[k]]) <= 1e-9 * max(1.0, abs(D[order[k]])):
                    ctx.fired("probe.nn_reference_ambiguous_row_skipped")
                    out.append(None)
                    continue
                members = [stored[j] for j in order[:k]]
            ctx.fired("probe.nn_reference_row")
            out.append({a: (_stats([run.rew[j] for j in members if run.dec[j] == a]) or {}) for a in arms})
        if run.batch:
            stored += list(block)
    return out


def _evaluate(arms, dec, rew, preds, train_stats, stat, nn_stats, start):
    per = {a: [] for a in arms}
    used_nn = False
    for i, p in enumerate(preds):
        if p == dec[i]:
            per[p].append(rew[i])
        elif nn_stats is not None:
            rs = nn_stats[i + start]
            if rs and rs.get(p):
                per[p].append(rs[p][stat])
                used_nn = True
            else:
                per[p].append(train_stats[p][stat])
        else:
            per[p].append(train_stats[p][stat])
    out = {}
    for a in arms:
        st = _stats(per[a])
        out[a] = st or {"count": 0, "sum": math.nan, "min": math.nan, "max": math.nan, "mean": math.nan, "std": math.nan}
    return out, used_nn


def execute(case, ctx):
    run = run_simulator(case, ctx)
    sig = {}
    online = bool(run.batch)
    if online and getattr(run, "chunk", 10 ** 9) < run.batch:
        sig["kf"] = "online-chunk-budget-below-batch"
    if run.exc is not None:
        from .. import simworld
        other = simworld.api_raises_too(run, case)
        if other:
            ctx.fired("probe.simulator_and_api_both_raise")
            ctx.ev("both_raise", type(run.exc).__name__, other)
            return
        ctx.violate("simulator-raised", 0, {"exc": type(run.exc).__name__, "msg": str(run.exc)[:200]},
                    **simworld.exc_sig(run, case, sig))
        return
    sim = run.sim
    n = run.n
    arms = list(case["cfgs"][0]["arms"])
    rtol = 1e-9

    def bad(name, detail, **extra):
        s = dict(sig)
        s.update(extra)
        ctx.violate(name, 0, detail, **s)
    # --- partition
    ctx.fired("oracle.comparisons")
    te = [int(x) for x in sim.test_indices]
    tr_ref, te_ref = split_indices(n, case["test_size"], case["is_ordered"], case["seed"])
    if sorted(te) != sorted(set(te)) or not set(te) <= set(range(n)) or len(te) == 0 or len(te) == n:
        return bad("test-indices-not-a-proper-subset", {"test": te})
    if case["is_ordered"] and te != list(range(n - len(te), n)):
        return bad("ordered-split-is-not-the-last-rows", {"test": te})
    if te != [int(x) for x in te_ref]:
        return bad("test-indices-differ-from-documented-split", {"sim": te, "ref": te_ref})
    tr = tr_ref
    if sorted(tr + te) != list(range(n)):
        return bad("train-test-do-not-partition-the-rows", {"train": tr, "test": te})
    dec, rew = run.dec, run.rew
    tdec, trew = [dec[i] for i in te], [rew[i] for i in te]
    # --- statistics
    for label, idx, have in (("total", list(range(n)), sim.arm_to_stats_total), ("train", tr, sim.arm_to_stats_train),
                             ("test", te, sim.arm_to_stats_test)):
        ctx.fired("oracle.comparisons")
        want = _arm_stats(arms, [dec[i] for i in idx], [rew[i] for i in idx])
        d = diff(want, {a: dict(have[a]) for a in arms}, rtol, 1e-9)
        if d:
            return bad("arm-statistics-wrong", {"scope": label, "diff": d}, scope=label)
    for a in arms:
        t, r, s = sim.arm_to_stats_total[a], sim.arm_to_stats_train[a], sim.arm_to_stats_test[a]
        if r["count"] + s["count"] != t["count"] or abs((r["sum"] + s["sum"]) - t["sum"]) > 1e-6 * max(1, abs(t["sum"])):
            return bad("train-plus-test-is-not-total", {"arm": a})
        if r["count"] == 0:
            ctx.fired("probe.arm_absent_from_train")
        if s["count"] == 0:
            ctx.fired("probe.arm_absent_from_test")
    if online and len(te) % run.batch:
        ctx.fired("probe.batch_does_not_divide_test")
    train_stats = _arm_stats(arms, [dec[i] for i in tr], [rew[i] for i in tr])
    # --- per bandit
    from mabwiser.simulator import _NeighborsSimulator
    for i, cfg in enumerate(case["cfgs"]):
        name = run.names[i]
        preds = list(sim.bandit_to_predictions[name])
        ctx.fired("oracle.comparisons")
        if len(preds) != len(te):
            return bad("not-one-prediction-per-test-row", {"bandit": name, "predictions": len(preds), "test": len(te)},
                       bandit_np=str(cfg["np"][0] if cfg["np"] else None))
        if any(p not in arms for p in preds):
            return bad("prediction-not-an-arm", {"bandit": name})
        mab_now = dict(sim.bandits)[name]
        nn = isinstance(mab_now, _NeighborsSimulator)
        nn_stats = sim.bandit_to_arm_to_stats_neighborhoods[name] if (nn and not case["is_quick"]) else None
        if nn_stats is not None and len(nn_stats) != len(te):
            return bad("not-one-neighbourhood-statistic-per-test-row", {"bandit": name, "have": len(nn_stats)})
        if nn_stats is not None and cfg["np"][0] in ("Radius", "KNearest"):
            # the neighbourhood statistics recomputed independently: the neighbourhood of a test row as the public API
            # defines it (distances of the rows stored at that time to this ONE row), then per-arm statistics of the raw
            # rewards in it. Rows whose membership is numerically ambiguous are skipped and counted.
            ref = _nn_reference(cfg, run, tr, te, arms, ctx)
            for j, want in enumerate(ref):
                if want is None:
                    continue
                ctx.fired("oracle.comparisons")
                have = {a: dict(nn_stats[j].get(a) or {}) for a in arms}
                d = diff(want, have, rtol, 1e-9)
                if d:
                    return bad("neighbourhood-statistics-wrong", {"bandit": name, "test_row": j, "diff": d},
                               bandit_np=str(cfg["np"][0]))
        rep = {"min": sim.bandit_to_arm_to_stats_min[name], "mean": sim.bandit_to_arm_to_stats_avg[name],
               "max": sim.bandit_to_arm_to_stats_max[name]}
        blocks = [("total", 0, len(te))] if not online else \
            [(k, s, min(s + run.batch, len(te))) for k, s in enumerate(range(0, len(te), run.batch))] + [("total", 0, len(te))]
        for key, s, e in blocks:
            got = {}
            for stat in ("min", "mean", "max"):
                want, used = _evaluate(arms, tdec[s:e], trew[s:e], preds[s:e], train_stats, stat, nn_stats, s)
                if used:
                    ctx.fired("probe.neighbourhood_statistic_used")
                have = rep[stat] if not online else rep[stat].get(key)
                ctx.fired("oracle.comparisons")
                if have is None:
                    return bad("evaluation-missing", {"bandit": name, "block": key, "stat": stat})
                d = diff(want, {a: dict(have[a]) for a in arms}, rtol, 1e-9)
                if d:
                    return bad("default-evaluation-wrong", {"bandit": name, "block": key, "stat": stat, "diff": d}, stat=stat)
                got[stat] = have
            if sum(got["mean"][a]["count"] for a in arms) != e - s:
                return bad("evaluated-counts-do-not-sum-to-test-rows", {"bandit": name, "block": key})
            for a in arms:
                if got["mean"][a]["count"]:
                    lo, mid, hi = got["min"][a]["sum"], got["mean"][a]["sum"], got["max"][a]["sum"]
                    tol = 1e-9 * max(1.0, abs(lo), abs(mid), abs(hi))
                    if not (lo <= mid + tol and mid <= hi + tol):
                        return bad("min-mean-max-not-ordered", {"bandit": name, "arm": a, "sums": [lo, mid, hi]})
