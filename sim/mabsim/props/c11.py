"""C11 -- LSHNearest neighbourhoods are the sign-random-projection collisions.

Oracle (RefLSH): accumulated rows; sign pattern tuple(x.plane > 0) per table with the planes read from the bandit (they
are random, fixed at fit); neighbourhood = union over tables of rows with an equal pattern; expectations = a FRESH real
learning-policy bandit trained on exactly that set with the per-row generator (all-NaN if empty). Plus the scale law
expect(c*X) == expect(X), c > 0, for context-free policies. Hashing and bucket inserts run under seeded process/thread
schedules and random partitions (F-SCHED on _add_neighbors: distinct hash keys share one dict).
"""
import math

import numpy as np

from .. import gen, kernel
from ..oracles import compare_results
from ..world import CONTEXT_FREE, LINEAR, Session, clone_rng, diff, sync_streams
from .c03 import _fresh_policy_answer

ID = "C11"
LEVEL = "exploration"
QUICK_RUNS = 3200
RULE = ("Each run: LSHNearest(n_dimensions 1..6, in a tenth of the runs 31..40, n_tables 1..4) over a drawn policy, d in 1..4, integer-grid contexts, "
        "history fit + partial_fit* with restarts, n_jobs in {1,2,3,5,-1} and a drawn backend; queries: stored rows, "
        "positive multiples c*row, the zero vector (all projections exactly 0), random rows; every training operation and "
        "query under its own seeded schedule.")
EXPECTED_PROBES = ["probe.query_is_stored_row", "probe.query_is_scaled_stored_row", "probe.zero_vector_query",
                   "probe.empty_neighbourhood", "probe.after_partial_fit", "probe.yield_inside._add_neighbors",
                   "probe.scale_law_checked"]
INT32MAX = np.iinfo(np.int32).max
SCALES = [2.0 ** k for k in (-10, -3, -1, 1, 2, 10)] + [3, 5, 7]


def generate(rnd, tier, index=0):
    lp = gen.gen_lp(rnd, names=CONTEXT_FREE + LINEAR)
    kind, arms, spare = gen.gen_arms(rnd, hi=4)
    d = rnd.randint(1, 4)
    rk = "binary" if lp[0] == "ThompsonSampling" else ("nonneg" if lp[0] == "Popularity" else rnd.choice(["binary", "smallint"]))
    np_ = ["LSHNearest", {"n_dimensions": rnd.choice([31, 32, 33, 40]) if rnd.random() < 0.1 else rnd.randint(1, 6), "n_tables": rnd.randint(1, 4)}]
    if rnd.random() < 0.3:
        np_[1]["no_nhood_prob_of_arm"] = gen.gen_probs(rnd, len(arms))
    cfg = {"arms": arms, "lp": lp, "np": np_, "seed": rnd.randrange(2 ** 20), "n_jobs": rnd.choice([1, 2, 3, 5, -1]),
           "backend": rnd.choice([None, "threading", "loky", "multiprocessing"])}
    ops = []
    stored = []
    for i in range(rnd.randint(1, 4)):
        rows = gen.gen_rows(rnd, arms, rnd.randint(1, 14), d, "exact", rk, True, omit=gen.some_omitted(rnd, arms))
        stored += [r[2] for r in rows]
        ops.append({"op": "fit" if i == 0 else "partial_fit", "rows": rows, "sched": kernel.Sched.draw(rnd)})
        Q, tags = [], []
        for _ in range(rnd.randint(1, 6)):
            u = rnd.random()
            if u < 0.3:
                Q.append(list(rnd.choice(stored)))
                tags.append("stored")
            elif u < 0.5:
                c = rnd.choice(SCALES)
                Q.append([c * x for x in rnd.choice(stored)])
                tags.append("scaled")
            elif u < 0.6:
                Q.append([0] * d)
                tags.append("zero")
            else:
                Q.append(gen.gen_ctx(rnd, d, "exact"))
                tags.append("random")
        ops.append({"op": rnd.choice(["expect", "expect", "predict"]), "Q": Q, "tags": tags,
                    "sched": kernel.Sched.draw(rnd), "c": rnd.choice(SCALES)})
        if rnd.random() < 0.25:
            ops.append({"op": "restart", "how": rnd.choice(["deepcopy", "p2", "p5"])})
    return {"cfg": cfg, "regime": "exact", "ops": ops}


def _pattern(x, plane):
    """Sign pattern of x under one table; None if some projection is indeterminate (too close to zero)."""
    x = np.asarray(x, dtype=float)
    zero = not np.any(x)
    pat = []
    for j in range(plane.shape[1]):
        p = plane[:, j]
        proj = math.fsum(float(a) * float(b) for a, b in zip(x, p))
        if not zero and abs(proj) <= 1e-9 * math.sqrt(float(x @ x)) * math.sqrt(float(p @ p)):
            return None
        pat.append(proj > 0)
    return tuple(pat)


def execute(case, ctx):
    cfg = case["cfg"]
    P = Session(cfg)
    hist = []
    n_train = 0
    lpname = cfg["lp"][0]
    rtol = 1e-12 if lpname in ("UCB1", "Softmax", "Popularity") else (1e-9 if lpname in LINEAR else 0.0)
    atol = 1e-9 if lpname in LINEAR else 0.0
    for step, op in enumerate(case["ops"]):
        kind = op["op"]
        ctx.ev("op", kind, step)
        ctx.fired("ops")
        if kind == "restart":
            P = P.clone(op["how"])
            ctx.fired("fault.restart")
            continue
        if kind in ("fit", "partial_fit"):
            rows = P.valid_rows(op["rows"])
            first = not P.fitted
            r = P.apply(op, sched=op.get("sched"))
            if r[0] == "ok":
                ctx.fired("ops.train")
                n_train += 1
                hist = list(rows) if (kind == "fit" or first) else hist + list(rows)
            elif r[0] == "exc":
                ctx.violate("valid-training-raised", step, {"exc": r[1]})
                return
            continue
        Q = op["Q"]
        if not P.can_query(Q):
            continue
        if n_train > 1:
            ctx.fired("probe.after_partial_fit")
        is_predict = kind == "predict"
        planes = {k: np.asarray(p) for k, p in P.mab._imp.table_to_plane.items()}
        seeds = clone_rng(P.mab._imp.rng).randint(INT32MAX, size=len(Q))
        twin = P.clone() if (lpname in CONTEXT_FREE and not is_predict) else None
        r = P.apply(op, sched=op.get("sched"))
        if r[0] != "ok":
            ctx.violate("query-raised", step, {"res": r})
            return
        got = r[1] if len(Q) > 1 else [r[1]]
        if not isinstance(got, list) or len(got) != len(Q):
            ctx.violate("result-length", step, {"want": len(Q), "got": len(got) if isinstance(got, list) else "no list"})
            return
        arms = list(P.mab.arms)
        stored_pats = {k: [_pattern(h[2], pl) for h in hist] for k, pl in planes.items()}
        any_indeterminate = False
        for i, q in enumerate(Q):
            tag = (op.get("tags") or ["random"] * len(Q))[i] if i < len(op.get("tags") or []) else "random"
            pats = {k: _pattern(q, pl) for k, pl in planes.items()}
            if any(p is None for p in pats.values()) or any(sp is None for k in planes for sp in stored_pats[k]):
                ctx.fired("probe.indeterminate_projection_skipped")
                any_indeterminate = True
                continue
            ctx.fired("oracle.comparisons")
            ctx.fired({"stored": "probe.query_is_stored_row", "scaled": "probe.query_is_scaled_stored_row",
                       "zero": "probe.zero_vector_query"}.get(tag, "probe.query_random_row"))
            members = sorted({j for k in planes for j, sp in enumerate(stored_pats[k]) if sp == pats[k]})
            if not members:
                ctx.fired("probe.empty_neighbourhood")
                if is_predict:
                    p = cfg["np"][1].get("no_nhood_prob_of_arm")
                    if got[i] not in arms or (p and p[arms.index(got[i])] == 0):
                        ctx.violate("empty-neighbourhood-arm-with-probability-zero", step, {"row": i, "got": got[i]})
                        return
                elif list(got[i].keys()) != arms or not all(isinstance(v, float) and math.isnan(v) for v in got[i].values()):
                    ctx.violate("collision-set", step, {"row": i, "query": q, "members": [], "got": got[i],
                                                        "want": "all NaN"})
                    return
                continue
            want = _fresh_policy_answer(cfg, arms, [hist[j] for j in members], q, seeds[i], is_predict)
            d = diff(want, got[i], rtol, atol)
            if d:
                ctx.violate("collision-set", step, {"row": i, "query": q, "tag": tag, "members": members, "diff": d})
                return
        # scale law (context-free policies: the expectation depends on the query only through its neighbourhood)
        if twin is not None and not any_indeterminate:
            c = op.get("c", 2.0)
            r2 = twin.apply({"op": "expect", "Q": [[c * x for x in q] for q in Q]}, sched=op.get("sched"))
            ctx.fired("probe.scale_law_checked")
            ctx.fired("oracle.comparisons")
            cmpres = compare_results(r, r2)
            if cmpres:
                ctx.violate("scale-law", step, {"c": c, "diff": cmpres[1]})
                return
