"""C06 -- incremental training equals batch training (F-CHUNK: delivery chunking of the training stream)."""
from .. import gen, kernel
from ..twin import obs_ops, observe_same, same_params
from ..world import LINEAR, Session, is_contextual, tol_for

ID = "C06"
LEVEL = "exploration"
QUICK_RUNS = 4000
RULE = ("Each run: drawn policy combination (no TreeBandit, scale=False), a training stream cut into drawn chunks "
        "(sizes >= 1, chunks that omit arms, first chunk delivered by fit or by partial_fit); after every chunk a "
        "fresh replica is fit once on the whole prefix, stream positions are copied across, and observations and "
        "parameter views must coincide (== in the exact arithmetic regime).")
EXPECTED_PROBES = ["probe.mixed_dtypes_along_stream", "probe.chunk_of_one_row", "probe.chunk_omits_arm", "probe.first_chunk_by_partial_fit"]
NPS = ("Radius", "KNearest", "LSHNearest", "Clusters")


def generate(rnd, tier, index=0):
    regime = rnd.choice(["exact", "exact", "float"])
    cfg, spare = gen.gen_cfg(rnd, with_np=rnd.random() < 0.6, np_names=NPS, allow_probs=True)
    if cfg["np"] and cfg["np"][0] == "Clusters" and cfg["lp"][0] == "Popularity":
        cfg["np"] = None
    ctxl = is_contextual(cfg)
    d = rnd.randint(1, 4)
    rkind = gen.reward_kind_for(rnd, cfg, regime)
    need = 1
    if cfg["np"] and cfg["np"][0] == "KNearest":
        need = cfg["np"][1]["k"]
    if cfg["np"] and cfg["np"][0] == "Clusters":
        need = cfg["np"][1]["n_clusters"] + 1
    n_chunks = rnd.randint(2, 6)
    ops = []
    stored = []
    for c in range(n_chunks):
        n = rnd.choice([1, 1, 2, 3, rnd.randint(1, 16)])
        if c == 0:
            n = max(n, need)
        rows = gen.gen_rows(rnd, cfg["arms"], n, d, regime, rkind, ctxl, omit=gen.some_omitted(rnd, cfg["arms"]))
        stored.extend(r[2] for r in rows if ctxl)
        ops.append({"op": "fit" if (c == 0 and rnd.random() < 0.7) else "partial_fit", "rows": rows})
    if rnd.random() < 0.25:
        # mixed dtypes along the stream: the first chunk is all integers (int arrays), later chunks carry fractions
        for r in ops[0]["rows"]:
            r[1] = int(round(r[1])) if lp_allows_any(cfg) else r[1]
            if r[2] is not None:
                r[2] = [int(round(x)) for x in r[2]]
        for o in ops[1:]:
            for r in o["rows"]:
                if lp_allows_any(cfg) and isinstance(r[1], int):
                    r[1] = r[1] + 0.5
                if r[2] is not None and regime == "exact":
                    r[2] = [x + 0.5 for x in r[2]]
    Q = gen.gen_Q(rnd, rnd.randint(1, 5), d, regime, stored) if ctxl else rnd.choice([None, [[0]], [[1, 2], [3, 4]]])
    jobs = None
    if rnd.random() < 0.3:
        # the chunked side trains with n_jobs > 1 under a seeded worker schedule per chunk (the one-batch side stays at 1)
        jobs = {"n_jobs": rnd.choice([2, 3, -1]), "backend": rnd.choice([None, "threading", "loky"])}
        for o in ops:
            o["sched"] = kernel.Sched.draw(rnd)
    return {"cfg": cfg, "regime": regime, "ops": ops, "Q": Q, "jobs": jobs}


def lp_allows_any(cfg):
    """Rewards may be arbitrary reals (not for ThompsonSampling: binary; Popularity: non-negative, +0.5 keeps that)."""
    return cfg["lp"][0] != "ThompsonSampling"


def shrink_paths(case):
    return [("ops",), ("Q",)] if isinstance(case.get("Q"), list) else [("ops",)]


KEEP_MIN = {"Q": 1}


def execute(case, ctx):
    cfg = case["cfg"]
    rtol = tol_for(cfg, case["regime"])
    atol = 1e-9 if (cfg["lp"][0] in LINEAR) else (0.0 if case["regime"] == "exact" else 1e-12)
    P = Session(cfg, **(case.get("jobs") or {}))
    applied = []
    for step, op in enumerate(case["ops"]):
        ctx.ev("op", op["op"], step)
        ctx.fired("ops")
        if step == 0 and op["op"] == "partial_fit":
            ctx.fired("probe.first_chunk_by_partial_fit")
        first = not P.fitted
        r = P.apply(op, sched=op.get("sched"))
        if r[0] == "skip":
            continue
        if r[0] == "exc":
            ctx.violate("training-raised", step, {"exc": r[1]})
            return
        ctx.fired("ops.train")
        ctx.fired("fault.chunk")
        ctx.ev("fault", "chunk", len(P.valid_rows(op["rows"])), sorted({str(x[0]) for x in P.valid_rows(op["rows"])}))
        rows = P.valid_rows(op["rows"])
        if op["op"] == "fit" and not first:
            applied = []
        applied.extend(rows)
        if len(rows) == 1:
            ctx.fired("probe.chunk_of_one_row")
        if step > 0 and any(isinstance(x[1], float) and x[1] != int(x[1]) for x in rows) and \
                all(isinstance(x[1], int) for x in applied[:1]):
            ctx.fired("probe.mixed_dtypes_along_stream")
        if {x[0] for x in rows} != set(cfg["arms"]):
            ctx.fired("probe.chunk_omits_arm")
        R = Session(cfg)
        rr = R.apply({"op": "fit", "rows": applied})
        if rr[0] != "ok":
            ctx.violate("batch-fit-failed", step, {"res": rr})
            return
        d = same_params(P, R, ctx, rtol, atol)
        if d:
            ctx.violate("model-differs", step, {"diff": d, "chunks": step + 1})
            return
        c = observe_same(P, R, obs_ops(case["Q"]), ctx, rtol, atol)
        if c:
            ctx.violate("observation-%s-differ" % c[0], step, {"diff": c[1], "chunks": step + 1})
            return
