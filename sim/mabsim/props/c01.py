"""C01 -- context-free policies compute the documented statistic of each arm's history.

Reference model (RefContextFree) after EVERY operation: (a) the parameter view equals the reference; (b)
predict_expectations equals the reference value (deterministic policies) or the replay of the documented sampler on a
clone of the bandit's generator with the ORACLE's parameters (randomised policies); Random: equal to a second Random
bandit with the same seed and different data. F-REJ (rejected calls) and F-RESTART (pickle/deepcopy) are interleaved and
must be no-ops for the model; training runs with n_jobs > 1 under seeded thread schedules (F-SCHED on _parallel_fit).
"""
import random

from .. import gen, kernel
from ..oracles import compare_results
from ..refs import RefContextFree, replay_context_free
from ..world import CONTEXT_FREE, Session, clone_rng, diff
from . import c17

ID = "C01"
LEVEL = "exploration"
QUICK_RUNS = 4800
RULE = ("Each run: drawn context-free policy and hyper-parameters, arm labels, data regime (exact: dyadic rewards, "
        "comparisons with ==; float: relative 1e-9), a history over fit / partial_fit (0-24 rows, batches that omit "
        "arms, single rows) / add_arm / remove_arm (incl. re-adding a removed label) / queries with rejected calls and "
        "restarts mixed in, n_jobs in {1,2,3,-1} with per-operation seeded thread schedules.")
EXPECTED_PROBES = ["fault.rejected_call", "fault.restart", "sched.yields", "probe.readded_removed_label",
                   "probe.batch_omits_arm", "probe.empty_batch", "probe.sampler_replayed"]
BAD = ["fit.rewards_with_nan", "partial_fit.len_dec_ne_rew", "partial_fit.rewards_with_inf", "add_arm.existing",
       "remove_arm.unknown", "predict.contexts_string", "warm_start.quantile_int", "fit.ctx_for_context_free",
       "add_arm.none", "partial_fit.decisions_tuple"]


def generate(rnd, tier, index=0):
    regime = rnd.choice(["exact", "exact", "float"])
    lp = gen.gen_lp(rnd, names=CONTEXT_FREE)
    cfg, spare = gen.gen_cfg(rnd, lp=lp, with_np=False, arm_kinds=("int", "str"))
    cfg["n_jobs"] = rnd.choice([1, 2, 3, -1])
    removed = []
    ops = gen.gen_history(rnd, cfg, spare, 1, regime, rnd.randint(4, 24), refit=0.1, max_rows=24,
                          sched=lambda r, op: kernel.Sched.draw(r) if op["op"] in ("fit", "partial_fit") else None)
    if rnd.random() < 0.04 and regime == "exact":
        # "exactly the rewards observed for that arm": a large batch of 0/1 (or small non-negative) rewards handed over as
        # a narrow unsigned / signed byte array - every value fits the dtype, the per-arm counts and sums do not
        rk = "binary" if lp[0] == "ThompsonSampling" else rnd.choice(["binary", "nonneg"])
        big = {"op": rnd.choice(["fit", "partial_fit"]), "container": rnd.choice(["ndarray_u8", "ndarray_i8"]),
               "rows": gen.gen_rows(rnd, cfg["arms"], rnd.randint(300, 600), 1, "exact", rk, False),
               "sched": kernel.Sched.draw(rnd)}
        ops.insert(rnd.randint(1, len(ops)), big)
    # re-adding removed labels: gen_history returns removed arms to the spare pool, so they do come back
    out = []
    for op in ops:
        out.append(op)
        u = rnd.random()
        if u < 0.10:
            out.append({"op": "bad_call", "entry": rnd.choice(BAD), "eseed": rnd.randrange(2 ** 30)})
        elif u < 0.18:
            out.append({"op": "restart", "how": rnd.choice(["deepcopy", "p2", "p4", "p5"])})
    return {"cfg": cfg, "regime": regime, "ops": out}


def _tols(case):
    if case["regime"] == "exact":
        return (1e-12, 0.0) if case["cfg"]["lp"][0] in ("UCB1", "Softmax", "Popularity") else (0.0, 0.0)
    return (1e-9, 1e-9)


def _check_params(P, ref, ctx, step, rtol, atol):
    imp = P.mab._imp
    name = ref.name
    ctx.fired("oracle.comparisons")
    if list(P.mab.arms) != ref.arms:
        return ("arm-list", {"bandit": list(P.mab.arms), "model": ref.arms})
    if name in ("EpsilonGreedy", "UCB1", "Softmax", "Popularity"):
        want = ref.expectations()
        have = dict(imp.arm_to_expectation)
        if want is None:
            ctx.fired("probe.popularity_all_zero")
            vals = list(have.values())
            if list(have.keys()) != ref.arms or min(vals) < 0 or abs(sum(vals) - 1) > 1e-9:
                return ("expectation-held", {"have": have, "want": "non-negative, sum 1"})
            return None
        d = diff(want, have, rtol, atol)
        if d:
            return ("expectation-held", {"diff": d, "want": want, "have": have})
    elif name == "ThompsonSampling":
        want = ref.beta_params()
        have = {a: (imp.arm_to_success_count[a], imp.arm_to_fail_count[a]) for a in imp.arm_to_success_count}
        d = diff({a: list(v) for a, v in want.items()}, {a: list(v) for a, v in have.items()})
        if d:
            return ("beta-parameters", {"diff": d})
    return None


def execute(case, ctx):
    cfg = case["cfg"]
    name = cfg["lp"][0]
    rtol, atol = _tols(case)
    P = Session(cfg)
    ref = RefContextFree(cfg["lp"], cfg["arms"])
    twin = Session(cfg) if name == "Random" else None      # Random ignores the data: twin gets other data
    ever_removed = set()
    for step, op in enumerate(case["ops"]):
        kind = op["op"]
        ctx.ev("op", kind, step)
        ctx.fired("ops")
        if kind == "bad_call":
            call = c17.CATALOGUE[op["entry"]](P, random.Random(op["eseed"]))
            if call is None:
                continue
            try:
                getattr(P.mab, call[0])(*call[1])
                ctx.fired("probe.bad_call_accepted")
                return          # the model cannot follow an accepted invalid call: run ends without verdict
            except kernel.HarnessError:
                raise
            except Exception:
                ctx.fired("fault.rejected_call")
                ctx.ev("fault", "rejected", op["entry"])
        elif kind == "restart":
            P = P.clone(op["how"])
            ctx.fired("fault.restart")
            ctx.ev("fault", "restart", op["how"])
        elif kind in ("fit", "partial_fit"):
            rows = P.valid_rows(op["rows"])
            first = not P.fitted
            r = P.apply(op, sched=op.get("sched"), container=op.get("container", "list"))
            if r[0] == "exc":
                ctx.violate("valid-training-raised", step, {"exc": r[1]})
                return
            if r[0] == "ok":
                ctx.fired("ops.train")
                (ref.fit if (kind == "fit" or first) else ref.partial_fit)(rows)
                if not rows:
                    ctx.fired("probe.empty_batch")
                elif {x[0] for x in rows} != set(ref.arms):
                    ctx.fired("probe.batch_omits_arm")
                if twin is not None:
                    twin.apply({"op": kind, "rows": [[x[0], 1 - x[1] if x[1] in (0, 1) else -x[1], x[2]] for x in rows[::2]]})
        elif kind == "add_arm":
            r = P.apply(op)
            if r[0] == "ok":
                ref.add_arm(op["arm"])
                if op["arm"] in ever_removed:
                    ctx.fired("probe.readded_removed_label")
                if twin is not None:
                    twin.apply(op)
        elif kind == "remove_arm":
            r = P.apply(op)
            if r[0] == "ok":
                ref.remove_arm(op["arm"])
                ever_removed.add(op["arm"])
                if twin is not None:
                    twin.apply(op)
        elif kind in ("predict", "expect"):
            if not P.fitted:
                continue
            Q = op.get("Q")
            m = len(Q) if Q is not None else None
            gen_clone = clone_rng(P.mab._imp.rng)
            if twin is not None:
                twin.mab._rng.rng.bit_generator.state = P.mab._rng.rng.bit_generator.state
            r = P.apply(op)
            if r[0] != "ok":
                ctx.violate("query-raised", step, {"res": r})
                return
            if name == "Random":
                rt = twin.apply(op)
                ctx.fired("oracle.comparisons")
                c = compare_results(r, rt)
                if c:
                    ctx.violate("random-depends-on-data", step, {"diff": c[1]})
                    return
            exp = ref.expectations()
            if name == "Popularity" and exp is None:
                exp = dict(P.mab._imp.arm_to_expectation)     # degenerate all-zero case: shares checked in (a)
            want = replay_context_free(name, cfg["lp"][1], ref.arms, gen_clone, m, exp=exp,
                                       beta=ref.beta_params() if name == "ThompsonSampling" else None)
            ctx.fired("probe.sampler_replayed")
            if kind == "predict":
                from ..oracles import first_argmax
                want = first_argmax(want) if isinstance(want, dict) else [first_argmax(w) for w in want]
            ctx.fired("oracle.comparisons")
            c = compare_results(("ok", want), r, rtol, atol)
            if c:
                ctx.violate("query-vs-reference-%s" % c[0], step, {"op": kind, "diff": c[1]})
                return
        bad = _check_params(P, ref, ctx, step, rtol, atol)
        if bad:
            ctx.violate(bad[0], step, dict(bad[1], after=kind))
            return
