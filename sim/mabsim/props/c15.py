"""C15 -- the Simulator reports what the public API would have produced.

System: one Simulator owning 1-4 bandits (neighbourhood bandits with different metrics together, different n_jobs), F-KNOB
chunk budget, SimParallel inside mabwiser.simulator (distance workers, prediction workers, LSH inserts) under a seeded
schedule with random partitions. Oracle: deep copies of the ORIGINAL bandits driven through MAB.fit / predict /
predict_expectations / partial_fit with the independently computed split. Randomised policies (and Radius / LSHNearest,
whose empty-neighbourhood arm is a draw): the property does not fix whether "read expectations" consumes the stream, and
the Simulator itself does it differently per bandit kind, so a match with EITHER protocol variant is accepted.
"""
import math

from .. import simworld
from ..simworld import api_reference, deterministic, generate, run_simulator, shrink_paths, simplify, KEEP_MIN  # noqa: F401
from ..world import diff, is_contextual

ID = "C15"
LEVEL = "exploration"
QUICK_RUNS = 1920
CHUNK = 10
RULE = ("Each run: 1-4 drawn bandits in drawn order, data set of 12-48 rows (arms absent from train or test included), "
        "test_size, ordered/random split, offline or online with drawn batch size, is_quick, seed, chunk budget in "
        "1..|test| (F-KNOB), one seeded schedule for all workers.")
EXPECTED_PROBES = ["knob.multi_chunk", "probe.neighbourhood_bandits_with_different_metrics", "probe.online",
                   "probe.offline", "probe.expectations_compared", "probe.either_variant_needed"]


def _nan_dict(e, arms):
    return isinstance(e, dict) and (len(e) == 0 or all(isinstance(v, float) and math.isnan(v) for v in e.values()))


def _exp_equal(rep, ref, rtol):
    if len(rep) != len(ref):
        return "length %d != %d" % (len(rep), len(ref))
    for i, (a, b) in enumerate(zip(rep, ref)):
        if _nan_dict(a, None) and _nan_dict(b, None):
            continue            # the Simulator reports {} where the API reports all-NaN (no neighbours): same content
        d = diff(b, a, rtol, rtol)
        if d:
            return "row %d %s" % (i, d)
    return None


def execute(case, ctx):
    run = run_simulator(case, ctx)
    cfgs = case["cfgs"]
    online = bool(run.batch)
    ctx.fired("probe.online" if online else "probe.offline")
    metrics = {c["np"][1].get("metric") for c in cfgs if c["np"] and c["np"][0] in ("Radius", "KNearest")}
    if len(metrics) > 1:
        ctx.fired("probe.neighbourhood_bandits_with_different_metrics")
    sig = {}
    if online and getattr(run, "chunk", 10 ** 9) < run.batch:
        sig["kf"] = "online-chunk-budget-below-batch"
    if run.exc is not None:
        # no claim if driving the same bandits through the public API raises as well (e.g. a metric that is undefined
        # for this data): the property compares reported results, there are none on either side
        other = simworld.api_raises_too(run, case)
        if other:
            ctx.fired("probe.simulator_and_api_both_raise")
            ctx.ev("both_raise", type(run.exc).__name__, other)
            return
        ctx.violate("simulator-raised", 0, {"exc": type(run.exc).__name__, "msg": str(run.exc)[:200]},
                    **simworld.exc_sig(run, case, sig))
        return
    sim = run.sim
    rtol = 0.0 if case["regime"] == "exact" else 1e-9
    for i, cfg in enumerate(cfgs):
        name = run.names[i]
        reported = list(sim.bandit_to_predictions[name])
        npname = cfg["np"][0] if cfg["np"] else None
        strict = deterministic(cfg) and npname not in ("Radius", "LSHNearest")
        variants = []
        for ve in (True, False):
            for chunked in ((False, True) if (not online and run.chunk < len(sim.test_indices)) else (False,)):
                if strict and chunked:
                    continue
                variants.append((ve, chunked))
        matched = None
        first_ref = None
        for ve, chunked in variants:
            try:
                preds, exps = api_reference(run, case, i, ve, chunked)
            except Exception as e:   # noqa
                ctx.violate("api-reference-raised-but-simulator-did-not", i, {"exc": type(e).__name__, "bandit": cfg["lp"],
                                                                              "np": cfg["np"]}, **sig)
                return
            if first_ref is None:
                first_ref = (preds, exps)
            ctx.fired("oracle.comparisons")
            if preds == reported:
                matched = (ve, chunked, exps)
                break
        if matched is None:
            if (npname == "TreeBandit" and cfg["n_jobs"] != 1 and (cfg["lp"][0] == "ThompsonSampling" or
                                                                     (cfg["lp"][0] == "EpsilonGreedy" and cfg["lp"][1]["epsilon"] > 0))):
                # the Simulator ran under the drawn worker schedule, the reference under the canonical one: for this
                # combination values are schedule dependent (known finding of C05); n_jobs == 1 stays fully checked
                sig = dict(sig, kf2="treebandit-shared-rng-schedule-dependent")
            k = next((j for j, (a, b) in enumerate(zip(first_ref[0], reported)) if a != b), min(len(first_ref[0]), len(reported)))
            ctx.violate("predictions-differ-from-public-api", i,
                        {"bandit": cfg["lp"], "np": cfg["np"], "first_differing_row": k, "reported": len(reported),
                         "api": len(first_ref[0]), "online": online, "chunk": run.chunk, "batch": run.batch},
                        bandit_lp=cfg["lp"][0], bandit_np=str(npname), **sig)
            return
        if matched[:2] != variants[0]:
            ctx.fired("probe.either_variant_needed")
        # expectations: only for policies whose expectations are deterministic
        if deterministic(cfg) and is_contextual(cfg):
            preds, exps = api_reference(run, case, i, True, matched[1])
            rep = sim.bandit_to_expectations[name]
            ctx.fired("probe.expectations_compared")
            ctx.fired("oracle.comparisons")
            bad = _exp_equal(list(rep), exps, rtol if not cfg["lp"][0].startswith("Lin") else 1e-9)
            if bad:
                ctx.violate("expectations-differ-from-public-api", i, {"bandit": cfg["lp"], "np": cfg["np"], "what": bad},
                            bandit_lp=cfg["lp"][0], bandit_np=str(npname), **sig)
                return
