"""C19 -- copies and pickles behave identically to the original (F-RESTART at every history position class)."""
import pickle

from .. import gen, kernel
from ..oracles import compare_results
from ..restore_server import client_call
from ..world import Session, alias_partition, is_contextual, diff, pview

ID = "C19"
LEVEL = "exploration"
USES_SERVERS = True       # helper interpreters are restarted for every execution made while minimising / replaying
SHRINK_EXEC = 16         # every execution made while minimising starts fresh helper interpreters (~3 s)
QUICK_RUNS = 1920
RULE = ("Each run: drawn policy combination (binarizers are module-level functions), a history with restart points "
        "placed before fit, after training, after arm changes, after warm start and between queries and partial_fit; "
        "at each restart point the bandit is deep-copied / pickled (protocols 2-5) / pickled and restored in ANOTHER "
        "interpreter with another hash seed; the copy runs the next operations first, then the original runs them and "
        "must return exactly the same, and the original must stay equal to a third bandit that was never copied.")
EXPECTED_PROBES = ["fault.restart.fresh_interpreter", "fault.restart.deepcopy", "fault.restart.p2", "fault.restart.p5",
                   "probe.restart_before_fit", "probe.restart_after_arm_change", "probe.restart_after_warm_start",
                   "probe.restart_between_query_and_partial_fit"]
REAL_EXTRA = ["a second interpreter process with its own PYTHONHASHSEED (restore server)"]
HOWS = ["deepcopy", "p2", "p3", "p4", "p5", "fresh"]


def generate(rnd, tier, index=0):
    regime = rnd.choice(["exact", "float"])
    if rnd.random() < 0.1:
        # the caller keeps ONE arm-feature dictionary and corrects vectors in place between two warm_start calls; the copy
        # is taken between the two calls (an object outside the bandit cannot keep its identity across a copy)
        lp = gen.gen_lp(rnd, names=("EpsilonGreedy", "UCB1", "Softmax", "ThompsonSampling", "LinUCB", "LinGreedy"))
        cfg, spare = gen.gen_cfg(rnd, lp=lp, with_np=False, arms_lo=3, arms_hi=5)
        cfg["reuse_feats"] = True
        d = rnd.randint(1, 2)
        rk = gen.reward_kind_for(rnd, cfg, "exact")
        cold = set(rnd.sample(list(cfg["arms"]), rnd.randint(1, len(cfg["arms"]) - 2)))
        rows = gen.gen_rows(rnd, cfg["arms"], rnd.randint(6, 16), d, "exact", rk, is_contextual(cfg), omit=cold)
        dim = rnd.randint(2, 3)
        w1 = gen.gen_warm(rnd, cfg["arms"], dim=dim)
        w1["q"] = rnd.choice([0.0, 0.0, 0.25])
        w2 = gen.gen_warm(rnd, cfg["arms"], dim=dim)
        w2["q"] = 1.0
        w1["copy"], w1["span"] = rnd.choice(HOWS + ["fresh"]), 3
        Q = gen.gen_Q(rnd, 2, d, "exact") if is_contextual(cfg) else None
        return {"cfg": cfg, "regime": "exact", "ops": [{"op": "fit", "rows": rows}, w1, w2, {"op": "expect", "Q": Q},
                                                       {"op": "predict", "Q": Q}]}
    cfg, spare = gen.gen_cfg(rnd, with_np=rnd.random() < 0.7, binarizer=rnd.random() < 0.5, allow_probs=False, scale=True)
    cfg["n_jobs"] = rnd.choice([1, 1, 2, 3])
    d = rnd.randint(1, 3)
    ops = gen.gen_history(rnd, cfg, spare, d, regime, rnd.randint(4, 14), warm=True, max_rows=12, binarizers=True)
    if rnd.random() < 0.3:   # a restart before the first fit
        pre = {"op": "add_arm", "arm": spare[0]} if (spare and rnd.random() < 0.5) else gen.gen_warm(rnd, cfg["arms"])
        if pre["op"] == "warm_start" and is_contextual(cfg):
            pre = {"op": "predict", "Q": None}     # skipped by the interpreter: nothing happens before the copy
        pre["copy"] = rnd.choice(HOWS)
        pre["span"] = rnd.randint(2, 6)
        ops = [pre] + ops
    for op in ops[:-1]:
        if "copy" not in op and rnd.random() < 0.3:
            op["copy"] = rnd.choice(HOWS if rnd.random() < 0.7 else ["fresh"])
            op["span"] = rnd.randint(1, 6)
    return {"cfg": cfg, "regime": regime, "ops": ops}


def _clone_outputs(P, how, ops, ctx, step):
    """Run `ops` on a copy of P made by `how`; returns list of (status, canon value)."""
    if how == "fresh":
        res = client_call({"pickle": pickle.dumps(P.mab, protocol=4), "cfg": P.cfg,
                           "state": (P.fitted, P.d, P.n_rows, P.has_binarizer), "ops": ops})
        if "error" in res:
            return None, "restore in another interpreter failed: " + res["error"][-600:]
        return [tuple(o) for o in res["outs"]], None
    try:
        C = P.clone(how)
    except Exception as e:   # noqa
        return None, "copy by %s raised %s" % (how, type(e).__name__)
    if alias_partition(C.mab) != alias_partition(P.mab):
        return None, "generator aliasing not preserved by %s: %r vs %r" % (how, alias_partition(C.mab),
                                                                           alias_partition(P.mab))
    d = diff(pview(P.mab), pview(C.mab))
    if d:
        return None, "copy differs from original right after %s: %s" % (how, d)
    outs = []
    for op in ops:
        r = C.apply(op)
        outs.append((r[0], kernel.canon(r[1])))
    return outs, None


def execute(case, ctx):
    cfg = case["cfg"]
    P = Session(cfg)
    T = Session(cfg)         # never copied
    ops = case["ops"]
    expected = {}            # step -> (status, canon) predicted by a copy
    last_kind = None
    changed = set()
    for step, op in enumerate(ops):
        kind = op["op"]
        ctx.ev("op", kind, step)
        ctx.fired("ops")
        rp = P.apply(op)
        rt = T.apply(op)
        if rp[0] == "ok" and kind in ("fit", "partial_fit"):
            ctx.fired("ops.train")
        ctx.fired("oracle.comparisons")
        c = compare_results(rp, rt)
        if c:
            ctx.violate("original-affected-by-copy-%s" % c[0], step, {"diff": c[1], "op": kind})
            return
        if step in expected:
            ctx.fired("oracle.comparisons")
            want = expected.pop(step)
            got = (rp[0], kernel.canon(rp[1]))
            if (want[0], want[1]) != got:
                ctx.violate("copy-behaves-differently", step, {"op": kind, "how": want[2], "copy": list(want[:2]),
                                                               "original": list(got)})
                return
        if rp[0] == "ok":
            if kind in ("add_arm", "remove_arm"):
                changed.add("arm_change")
            if kind == "warm_start":
                changed.add("warm_start")
        how = op.get("copy")
        if how:
            ctx.fired("fault.restart")
            ctx.fired("fault.restart." + ("fresh_interpreter" if how == "fresh" else how))
            ctx.ev("fault", "restart", how, step)
            if not P.fitted:
                ctx.fired("probe.restart_before_fit")
            for k in changed:
                ctx.fired("probe.restart_after_" + k)
            nxt = ops[step + 1: step + 1 + op.get("span", 3)]
            if kind in ("predict", "expect") and nxt and nxt[0]["op"] == "partial_fit":
                ctx.fired("probe.restart_between_query_and_partial_fit")
            clean = [{k: v for k, v in o.items() if k not in ("copy", "span")} for o in nxt]
            outs, err = _clone_outputs(P, how, clean, ctx, step)
            if err:
                ctx.violate("copy-failed", step, {"how": how, "what": err})
                return
            for j, o in enumerate(outs):
                expected.setdefault(step + 1 + j, (o[0], o[1], how))
        last_kind = kind
