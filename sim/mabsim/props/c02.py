"""C02 -- linear policies are exact per-arm ridge regressions with the stated bonus (RefRidge = numpy solve on the raw
per-arm history, checked after every query of a generated fit/partial_fit/arm-change history)."""
import copy

import numpy as np

from .. import gen
from ..refs import RefRidge
from ..world import LINEAR, Session, diff

ID = "C02"
LEVEL = "exploration"
QUICK_RUNS = 4000
RULE = ("Each run: LinGreedy / LinUCB / LinTS with drawn alpha, l2_lambda in {0.1,0.5,1,2,10}, epsilon, d in 1..4 (d=1 with "
        "m>1 on purpose), m in 1..7, scale=True only with a single fit; history split arbitrarily into fit + "
        "partial_fit*, arms with zero rows, arms added after fit, restarts; every query is compared with the oracle "
        "(x.beta, + alpha*sqrt(x'A^-1x), LinTS: centring at alpha=1e-9 and replay of the multivariate normal draw on "
        "copies of the generators with the ORACLE's mean and covariance).")
EXPECTED_PROBES = ["probe.near_constant_column", "probe.one_feature_many_rows", "probe.unobserved_arm_queried", "probe.arm_added_after_fit",
                   "probe.lints_centring", "probe.lints_replayed", "probe.scale_true", "fault.chunk"]


def generate(rnd, tier, index=0):
    regime = rnd.choice(["exact", "float"])
    name = rnd.choice(LINEAR)
    lp = gen.gen_lp(rnd, name)
    scale = rnd.random() < 0.2
    if scale:
        lp[1]["scale"] = True
    if scale and rnd.random() < 0.08:
        # ONE large fit (more than a thousand rows per arm, drifting feature distribution): "computed on per-arm standardised
        # features" means standardised with the statistics of ALL the arm's rows, however the call works through them
        lp[1]["scale"] = True
        if lp[0] == "LinGreedy":
            lp[1]["epsilon"] = 0
        cfg, spare = gen.gen_cfg(rnd, lp=lp, with_np=False, arms_lo=2, arms_hi=2)
        d = rnd.randint(1, 2)
        n = rnd.randint(2200, 2700)
        rows = gen.gen_rows(rnd, cfg["arms"], n, d, "float", "real", True)
        for i, r in enumerate(rows):
            r[2] = [round(x + 6.0 * i / n, 6) for x in r[2]]
        Q = gen.gen_Q(rnd, rnd.randint(1, 3), d, "float", [r[2] for r in rows[:50]])
        return {"cfg": cfg, "regime": "float", "ops": [{"op": "fit", "rows": rows}, {"op": "expect", "Q": Q}],
                "container": "list", "big": True}
    cfg, spare = gen.gen_cfg(rnd, lp=lp, with_np=False, arms_hi=5)
    d = rnd.choice([1, 1, 2, 3, 4])
    n_ops = rnd.randint(3, 12)
    ops = gen.gen_history(rnd, cfg, spare, d, regime, n_ops, refit=0.08, max_rows=20, max_m=7,
                          rkind="smallint" if regime == "exact" else "real")
    if scale:      # running standardisation is excluded by the property: a single fit only
        ops = [o for i, o in enumerate(ops) if not (o["op"] in ("fit", "partial_fit") and i > 0)]
        if rnd.random() < 0.5:
            # a nearly constant feature column: per-arm standard deviation around the documented 1e-6 tolerance
            # (small offset so that the scaler's variance computation stays well conditioned)
            col = rnd.randrange(d)
            base = rnd.choice([0.0, 0.01, 0.05])
            eps = rnd.choice([1e-3, 3e-4, 1e-4, 1e-5, 1e-7, 0.0])
            for o in ops:
                if o["op"] in ("fit", "partial_fit"):
                    for r in o["rows"]:
                        r[2][col] = base + eps * rnd.randint(-3, 3)
                elif o["op"] in ("predict", "expect") and o.get("Q"):
                    for q in o["Q"]:
                        q[col] = base + eps * rnd.randint(-5, 5)
    for op in ops:
        if rnd.random() < 0.1:
            op["restart"] = rnd.choice(["deepcopy", "p4"])
    container = "list"
    if rnd.random() < 0.2:
        # the caller keeps one pre-allocated array per argument and overwrites it in place for the next call: batches and
        # query blocks of one fixed size, so that the very same ndarray objects come back with other contents
        container = "reuse:" + rnd.choice(["ndarray", "ndarray", "ndarray_F", "list", "series_frame"])
        n0, m0 = rnd.randint(2, 4), rnd.randint(1, 3)
        for op in ops:
            if op["op"] in ("fit", "partial_fit") and len(op["rows"]) >= n0:
                op["rows"] = op["rows"][:n0]
            elif op["op"] in ("predict", "expect") and op.get("Q"):
                op["Q"] = op["Q"][:m0]
    return {"cfg": cfg, "regime": regime, "ops": ops, "container": container}


def _replay(P0, ref, cfg, Q, wrong_unobserved=False):
    """Documented computation with the ORACLE's beta / covariance, drawing from copies of the bandit's generators
    (P0 is a deep copy of the bandit taken just before the query: same generator states, same aliasing)."""
    name, kw = cfg["lp"]
    imp = P0._imp
    arms = list(ref.arms)
    Q = np.asarray(Q, dtype=float)
    m = Q.shape[0]
    eps = kw.get("epsilon", 0) if name == "LinGreedy" else 0
    alpha = kw.get("alpha", 1.0)
    scale = kw.get("scale", False)
    rv = imp.rng.rand(m)
    mask = rv < eps
    out = np.empty((m, len(arms)))
    ridx = np.nonzero(mask)[0]
    out[ridx] = imp.rng.rand((len(ridx), len(arms)))
    nidx = np.nonzero(~mask)[0]
    for j, a in enumerate(arms):
        beta, cov = ref.model(a, scale)
        if wrong_unobserved and not ref.observed(a):
            cov = ref.lam * np.identity(ref.d)          # the known-wrong covariance lambda*I of a never-observed arm
        X = ref.transform(a, Q[nidx], scale)
        if name == "LinGreedy":
            vals = X @ beta
        elif name == "LinUCB":
            vals = X @ beta + alpha * np.sqrt(np.einsum("ij,jk,ik->i", X, cov, X))
        else:
            g = imp.arm_to_model[a].rng.rng
            draws = g.multivariate_normal(beta, np.square(alpha) * cov, size=len(nidx), method="cholesky")
            vals = np.sum(X * draws.reshape(X.shape), axis=1)
        out[nidx, j] = vals
    rows = [dict(zip(arms, [float(v) for v in r])) for r in out]
    return rows[0] if m == 1 else rows, mask


def execute(case, ctx):
    cfg = case["cfg"]
    name, kw = cfg["lp"]
    rtol = 1e-9 if case["regime"] == "exact" else 1e-7
    atol = 1e-9 if case["regime"] == "exact" else 1e-7
    P = Session(cfg)
    ref = RefRidge(cfg["lp"], cfg["arms"])
    added_after_fit = set()
    for step, op in enumerate(case["ops"]):
        kind = op["op"]
        ctx.ev("op", kind, step)
        ctx.fired("ops")
        if kind in ("fit", "partial_fit"):
            rows = P.valid_rows(op["rows"])
            first = not P.fitted
            r = P.apply(op, container=case.get("container", "list"))
            if r[0] == "exc":
                ctx.violate("valid-training-raised", step, {"exc": r[1]})
                return
            if r[0] == "ok":
                ctx.fired("ops.train")
                ctx.fired("fault.chunk")
                if kind == "fit" or first:
                    ref.fit(rows)
                    added_after_fit = set()
                else:
                    ref.partial_fit(rows)
        elif kind == "add_arm":
            if P.apply(op)[0] == "ok":
                ref.add_arm(op["arm"])
                if P.fitted:
                    added_after_fit.add(op["arm"])
        elif kind == "remove_arm":
            if P.apply(op)[0] == "ok":
                ref.remove_arm(op["arm"])
        elif kind in ("predict", "expect"):
            if not P.can_query(op.get("Q")):
                continue
            Q = op["Q"]
            P0 = copy.deepcopy(P.mab)
            r = P.apply({"op": "expect", "Q": Q}, container=case.get("container", "list"))
            if r[0] != "ok":
                ctx.violate("query-raised", step, {"res": r})
                return
            if ref.d == 1 and len(Q) > 1:
                ctx.fired("probe.one_feature_many_rows")
            if any(not ref.observed(a) for a in ref.arms):
                ctx.fired("probe.unobserved_arm_queried")
            if any(a in ref.arms for a in added_after_fit):
                ctx.fired("probe.arm_added_after_fit")
            if kw.get("scale"):
                ctx.fired("probe.scale_true")
                for a in ref.arms:
                    if ref.observed(a) and len(ref.y[a]) > 1:
                        sd = np.asarray(ref.X[a], dtype=float).std(axis=0)
                        if ((sd > 1e-6) & (sd < 2e-3)).any():
                            ctx.fired("probe.near_constant_column")
                            break
            want, mask = _replay(copy.deepcopy(P0), ref, cfg, Q)
            ctx.fired("oracle.comparisons")
            if name == "LinTS":
                ctx.fired("probe.lints_replayed")
            d = diff(want, r[1], rtol, atol)
            if d:
                sig = {}
                if any(not ref.observed(a) for a in ref.arms) and ref.lam != 1 and name in ("LinUCB", "LinTS"):
                    wrong, _ = _replay(copy.deepcopy(P0), ref, cfg, Q, wrong_unobserved=True)
                    if diff(wrong, r[1], rtol, atol) is None:
                        sig["kf"] = "ainv-lambda-unobserved-arm"
                ctx.violate("expectation-vs-ridge-oracle", step, {"diff": d, "lambda": ref.lam, "d": ref.d, "m": len(Q)},
                            **sig)
                if not sig:
                    return
            if name == "LinTS" and kw.get("alpha") == 1e-9:
                # centring: with alpha -> 0 the draw converges to x.beta
                ctx.fired("probe.lints_centring")
                centre, _ = _replay(copy.deepcopy(P0), ref, dict(cfg, lp=["LinGreedy", {"epsilon": 0, "l2_lambda":
                                    ref.lam, "scale": kw.get("scale", False)}]), Q)
                ctx.fired("oracle.comparisons")
                d = diff(centre, r[1], 1e-6, 1e-6)
                if d:
                    ctx.violate("lints-not-centred-on-x-beta", step, {"diff": d, "d": ref.d, "m": len(Q)})
                    return
        else:
            P.apply(op)
        if op.get("restart"):
            P = P.clone(op["restart"])
            ctx.fired("fault.restart")
