"""C03 -- Radius and KNearest use exactly the observations in the neighbourhood.

Oracle (RefNeighbourhood): the accumulated rows of fit + partial_fit*, exact integer distances, membership <= radius
(radius chosen ON realised distances), for KNearest the set of all valid selections when the k-th and (k+1)-th distances
tie. The expectation of the learning policy "trained from scratch on exactly these rows" is obtained from a FRESH real
learning-policy bandit fit on the oracle-selected rows and given the per-row generator the documented seeding produces.
F-PART / F-SCHED on _parallel_predict, F-RESTART between partial fits.
"""
import itertools
import math

import numpy as np

from .. import gen, kernel
from ..refs import int_distance, knearest_options, radius_members
from ..world import CONTEXT_FREE, LINEAR, Session, clone_rng, diff, make_mab

ID = "C03"
LEVEL = "exploration"
QUICK_RUNS = 3200
RULE = ("Each run: Radius or KNearest over a drawn context-free or linear policy; contexts on the integer grid [-3,3]^d, "
        "metric in {cityblock, chebyshev, sqeuclidean, euclidean}; radius drawn from the realised query-to-row distances "
        "(boundary rows included), k up to the number of stored rows; history fit + partial_fit* with restarts and, in a "
        "third of the runs, add_arm / remove_arm between the chunks (rows of a removed arm stay stored observations); queries "
        "equal to stored rows, on the boundary and far away (empty neighbourhood), answered under seeded worker "
        "schedules and random partitions.")
EXPECTED_PROBES = ["probe.row_exactly_on_radius", "probe.empty_neighbourhood", "probe.kth_distance_tie",
                   "probe.after_partial_fit", "fault.partition_random", "fault.restart", "probe.removed_arm_has_stored_rows"]
INT32MAX = np.iinfo(np.int32).max


def _calibrated():
    from scipy.spatial.distance import cdist
    pts = np.array(list(itertools.product(range(-3, 4), repeat=2)))
    D = cdist(pts, pts, "euclidean")
    return all(D[i, j] == math.sqrt(int(((pts[i] - pts[j]) ** 2).sum())) for i in range(len(pts)) for j in range(len(pts)))


EUCLID_OK = None


def _generate_rowindep(rnd):
    """Metrics whose parameters scipy derives from the data handed to cdist (seuclidean, mahalanobis): no exact reference
    distances, but the neighbourhood of a query is a function of (stored observations, THIS query) only, so a row answered
    inside a block of several rows must get the answer it gets alone."""
    lp = gen.det_lp(rnd)
    kind, arms, spare = gen.gen_arms(rnd, hi=4)
    d = rnd.randint(2, 3)
    metric = rnd.choice(["seuclidean", "mahalanobis", "seuclidean"])
    n = rnd.randint(8, 20)
    rows = gen.gen_rows(rnd, arms, n, d, "float", "nonneg_real" if lp[0] != "LinUCB" else "real", True)
    Q = [list(rnd.choice(rows)[2]) for _ in range(2)] + [[round(rnd.uniform(-40, 40), 3) for _ in range(d)] for _ in range(rnd.randint(1, 3))]
    rnd.shuffle(Q)
    np_ = ["KNearest", {"k": rnd.randint(1, 4), "metric": metric}] if rnd.random() < 0.6 else \
        ["Radius", {"radius": rnd.choice([0.5, 1.0, 1.5, 2.5]), "metric": metric}]
    cfg = {"arms": arms, "lp": lp, "np": np_, "seed": rnd.randrange(2 ** 20), "n_jobs": rnd.choice([1, 2]), "backend": None}
    return {"cfg": cfg, "regime": "float", "rowindep": True,
            "ops": [{"op": "fit", "rows": rows}, {"op": "expect", "Q": Q, "sched": kernel.Sched.draw(rnd)}]}


def _execute_rowindep(case, ctx):
    import copy
    cfg = case["cfg"]
    P = Session(cfg)
    for step, op in enumerate(case["ops"]):
        ctx.ev("op", op["op"], step)
        ctx.fired("ops")
        if op["op"] == "fit":
            if P.apply(op)[0] != "ok":
                return
            ctx.fired("ops.train")
            continue
        Q = op["Q"]
        alone = []
        for q in Q:
            try:
                alone.append(copy.deepcopy(P.mab).predict_expectations([list(q)]))
            except Exception:
                return          # undefined for this data (singular covariance ...): no claim
        r = P.apply(op, sched=op.get("sched"))
        if r[0] != "ok":
            ctx.violate("query-raised", step, {"res": r})
            return
        ctx.fired("probe.data_dependent_metric_row_independence")
        for i, (a, b) in enumerate(zip(alone, r[1])):
            ctx.fired("oracle.comparisons")
            dd = diff(a, b, 1e-9, 1e-9)
            if dd:
                ctx.violate("neighbourhood-depends-on-other-query-rows", step, {"row": i, "metric": cfg["np"][1]["metric"],
                                                                                "diff": dd})
                return


def generate(rnd, tier, index=0):
    if rnd.random() < 0.08:
        return _generate_rowindep(rnd)
    lp = gen.gen_lp(rnd, names=CONTEXT_FREE + LINEAR)
    kind, arms, spare = gen.gen_arms(rnd, hi=4)
    d = rnd.randint(1, 3)
    metric = rnd.choice(gen.METRICS_EXACT)
    rk = "binary" if lp[0] == "ThompsonSampling" else ("nonneg" if lp[0] == "Popularity" else rnd.choice(["binary",
                                                                                                         "smallint", "dyadic"]))
    # arm changes between the chunks (a third of the runs): removing an arm must not remove its rows from the stored
    # observations ("all rows passed to fit and to every later partial_fit"), an added arm gets rows in later chunks
    arm_changes = rnd.random() < 0.35
    cur = list(arms)
    spare = list(spare)
    chunks, stored, ops = [], [], []
    for i in range(rnd.randint(1, 3)):
        c = gen.gen_rows(rnd, cur, rnd.randint(2, 12), d, "exact", rk, True, omit=gen.some_omitted(rnd, cur))
        chunks.append(c)
        stored += [r[2] for r in c]
        ops.append({"op": "fit" if i == 0 else "partial_fit", "rows": c})

        def query():
            Q = []
            for _ in range(rnd.randint(1, 5)):
                u = rnd.random()
                if u < 0.3:
                    Q.append(list(rnd.choice(stored)))
                elif u < 0.5:
                    Q.append([rnd.choice([-9, 9, 12]) for _ in range(d)])      # far away
                else:
                    Q.append(gen.gen_ctx(rnd, d, "exact"))
            return {"op": rnd.choice(["expect", "predict"]), "Q": Q, "sched": kernel.Sched.draw(rnd)}
        ops.append(query())
        if rnd.random() < 0.3:
            ops.append({"op": "restart", "how": rnd.choice(["deepcopy", "p3", "p5"])})
        if arm_changes and rnd.random() < 0.7:
            if spare and (len(cur) <= 2 or rnd.random() < 0.4):
                a = spare.pop(rnd.randrange(len(spare)))
                cur.append(a)
                ops.append({"op": "add_arm", "arm": a})
            elif len(cur) > 2:
                a = cur.pop(rnd.randrange(len(cur)))
                spare.append(a)
                ops.append({"op": "remove_arm", "arm": a})
            ops.append(query())
    if rnd.random() < 0.5:
        # radius on a realised distance between a stored row and a query row
        qs = [q for o in ops if o["op"] in ("expect", "predict") for q in o["Q"]]
        cand = sorted({int_distance(metric, s, q) for s in stored for q in qs if int_distance(metric, s, q) > 0})
        radius = rnd.choice(cand[:6]) if cand else 1
        np_ = ["Radius", {"radius": radius, "metric": metric}]
        if rnd.random() < 0.4 and not arm_changes:
            np_[1]["no_nhood_prob_of_arm"] = gen.gen_probs(rnd, len(arms))
    else:
        np_ = ["KNearest", {"k": rnd.randint(1, max(1, min(6, len(chunks[0])))), "metric": metric}]
    cfg = {"arms": arms, "lp": lp, "np": np_, "seed": rnd.randrange(2 ** 20), "n_jobs": rnd.choice([1, 2, 3, -1]),
           "backend": rnd.choice([None, "threading", "loky"])}
    return {"cfg": cfg, "regime": "exact", "ops": ops}


def _fresh_policy_answer(cfg, arms, rows_sel, q, seed, is_predict):
    """The learning policy trained from scratch on exactly rows_sel, with the per-row generator."""
    from mabwiser.utils import create_rng
    F = make_mab({"arms": list(arms), "lp": cfg["lp"], "np": None, "seed": 1})
    imp = F._imp
    imp.rng = create_rng(int(seed))
    dec = np.asarray([r[0] for r in rows_sel])
    rew = np.asarray([r[1] for r in rows_sel])
    X = np.asarray([r[2] for r in rows_sel]).reshape(len(rows_sel), len(q))
    imp.fit(dec, rew, X)
    row = np.asarray([q])
    return imp.predict(row) if is_predict else imp.predict_expectations(row)


def execute(case, ctx):
    global EUCLID_OK
    if EUCLID_OK is None:
        EUCLID_OK = _calibrated()
    if case.get("rowindep"):
        return _execute_rowindep(case, ctx)
    cfg = case["cfg"]
    npname, npkw = cfg["np"]
    metric = npkw["metric"]
    if metric == "euclidean" and not EUCLID_OK:
        ctx.fired("probe.calibration_guard_disabled_euclidean")
        return
    P = Session(cfg)
    hist = []
    rtol = 1e-12 if cfg["lp"][0] in ("UCB1", "Softmax", "Popularity") else (1e-9 if cfg["lp"][0] in LINEAR else 0.0)
    atol = 1e-9 if cfg["lp"][0] in LINEAR else 0.0
    n_train = 0
    for step, op in enumerate(case["ops"]):
        kind = op["op"]
        ctx.ev("op", kind, step)
        ctx.fired("ops")
        if kind == "restart":
            P = P.clone(op["how"])
            ctx.fired("fault.restart")
            continue
        if kind in ("add_arm", "remove_arm"):
            r = P.apply(op)
            if r[0] == "ok":
                ctx.fired("fault.arm_change")
                if kind == "remove_arm" and any(h[0] == op["arm"] for h in hist):
                    ctx.fired("probe.removed_arm_has_stored_rows")
            elif r[0] == "exc":
                ctx.violate("valid-arm-change-raised", step, {"exc": r[1], "op": kind})
                return
            continue
        if kind in ("fit", "partial_fit"):
            rows = P.valid_rows(op["rows"])
            first = not P.fitted
            r = P.apply(op)
            if r[0] == "ok":
                ctx.fired("ops.train")
                n_train += 1
                hist = list(rows) if (kind == "fit" or first) else hist + list(rows)
            elif r[0] == "exc":
                ctx.violate("valid-training-raised", step, {"exc": r[1]})
                return
            continue
        Q = op["Q"]
        if not P.can_query(Q):
            continue
        if n_train > 1:
            ctx.fired("probe.after_partial_fit")
        is_predict = kind == "predict"
        seeds = clone_rng(P.mab._imp.rng).randint(INT32MAX, size=len(Q))
        r = P.apply(op, sched=op.get("sched"))
        if r[0] != "ok":
            ctx.violate("query-raised", step, {"res": r})
            return
        got = r[1] if len(Q) > 1 else [r[1]]
        if len(got) != len(Q):
            ctx.violate("result-length", step, {"want": len(Q), "got": len(got)})
            return
        arms = list(P.mab.arms)
        stored = [h[2] for h in hist]
        for i, q in enumerate(Q):
            ctx.fired("oracle.comparisons")
            if npname == "Radius":
                members = radius_members(metric, stored, q, npkw["radius"])
                if any(int_distance(metric, stored[j], q) == npkw["radius"] for j in members):
                    ctx.fired("probe.row_exactly_on_radius")
                options = [members]
            else:
                must, tie, need = knearest_options(metric, stored, q, npkw["k"])
                if len(tie) > need:
                    ctx.fired("probe.kth_distance_tie")
                if math.comb(len(tie), need) > 64:
                    ctx.fired("probe.tie_class_too_large_skipped")
                    continue
                options = [sorted(must + list(c)) for c in itertools.combinations(tie, need)]
            if not options[0]:
                ctx.fired("probe.empty_neighbourhood")
                if is_predict:
                    from mabwiser.utils import create_rng
                    p = npkw.get("no_nhood_prob_of_arm")
                    want = arms[create_rng(int(seeds[i])).choice(len(arms), size=1, p=p)[0]]
                    if got[i] not in arms or (p and p[arms.index(got[i])] == 0):
                        ctx.violate("empty-neighbourhood-arm-with-probability-zero", step, {"row": i, "got": got[i], "p": p})
                        return
                    if got[i] != want:
                        ctx.violate("empty-neighbourhood-draw", step, {"row": i, "got": got[i], "want": want})
                        return
                else:
                    if list(got[i].keys()) != arms or not all(isinstance(v, float) and math.isnan(v) for v in got[i].values()):
                        ctx.violate("empty-neighbourhood-expectations-not-nan", step, {"row": i, "got": got[i]})
                        return
                continue
            errs = []
            for sel in options:
                want = _fresh_policy_answer(cfg, arms, [hist[j] for j in sel], q, seeds[i], is_predict)
                d = diff(want, got[i], rtol, atol)
                if d is None:
                    errs = None
                    break
                errs.append(d)
            if errs is not None:
                ctx.violate("neighbourhood-%s" % npname.lower(), step,
                            {"row": i, "query": q, "members": options[0] if len(options) == 1 else "%d options" % len(options),
                             "diff": errs[0]})
                return
