"""C07 -- fit discards everything learned before (F-REFIT at arbitrary points of arbitrary histories)."""
from .. import gen, kernel
from ..twin import obs_ops, observe_same, same_params
from ..world import Session, is_contextual, sync_streams, tol_for

ID = "C07"
LEVEL = "exploration"
QUICK_RUNS = 3200
RULE = ("Each run: drawn policy combination and a history of fit / partial_fit / arm changes / warm_start / queries in "
        "which every later fit (new data smaller, larger or with another column count) is a check point: a fresh "
        "bandit with the same configuration and the current arm list gets the primary's main stream position, both "
        "fit the same data, then all stream positions are copied and observations, parameter views, cold_arms and the "
        "whole continuation must coincide.")
EXPECTED_PROBES = ["probe.refit_other_columns", "probe.refit_smaller", "probe.refit_after_warm_start",
                   "probe.refit_after_arm_change"]


def generate(rnd, tier, index=0):
    regime = rnd.choice(["exact", "exact", "float"])
    cfg, spare = gen.gen_cfg(rnd, with_np=rnd.random() < 0.65, allow_probs=False)
    ctxl = is_contextual(cfg)
    rkind = gen.reward_kind_for(rnd, cfg, regime)
    arms = list(cfg["arms"])
    need = 2
    if cfg["np"] and cfg["np"][0] == "KNearest":
        need = cfg["np"][1]["k"]
    if cfg["np"] and cfg["np"][0] == "Clusters":
        need = cfg["np"][1]["n_clusters"] + 1
    d = rnd.randint(1, 4)
    stored = []
    ops = []

    def train(kind, n):
        rows = gen.gen_rows(rnd, arms, max(n, 1) if ctxl else n, d, regime, rkind, ctxl, omit=gen.some_omitted(rnd, arms))
        if kind == "fit":
            del stored[:]
        stored.extend(r[2] for r in rows if ctxl)
        return {"op": kind, "rows": rows}
    ops.append(train("fit", max(need, rnd.randint(2, 20))))
    n_ops = rnd.randint(4, 16)
    while len(ops) < n_ops:
        u = rnd.random()
        if u < 0.25:
            ops.append(train("partial_fit", rnd.randint(0, 14)))
        elif u < 0.50:
            prev = next((o for o in reversed(ops) if o["op"] == "fit"), None)
            if ctxl and prev and rnd.random() < 0.2:
                # the same contexts again with other decisions / rewards: every cell, bucket and leaf keeps its row
                # POSITIONS, only what was observed there is new
                fresh = gen.gen_rows(rnd, arms, len(prev["rows"]), len(prev["rows"][0][2]), regime, rkind, True)
                rows = [[f[0], f[1], list(p[2])] for f, p in zip(fresh, prev["rows"])]
                d = len(prev["rows"][0][2])
                del stored[:]
                stored.extend(r[2] for r in rows)
                ops.append({"op": "fit", "rows": rows, "same_contexts": True})
                continue
            if ctxl and rnd.random() < 0.4:
                d = rnd.randint(1, 4)
            ops.append(train("fit", max(need, rnd.choice([1, 2, 3, rnd.randint(1, 24)]))))
        elif u < 0.60 and spare and len(arms) < 7:
            a = spare.pop(rnd.randrange(len(spare)))
            arms.append(a)
            ops.append({"op": "add_arm", "arm": a})
        elif u < 0.67 and len(arms) > 2:
            a = arms.pop(rnd.randrange(len(arms)))
            spare.append(a)
            ops.append({"op": "remove_arm", "arm": a})
        elif u < 0.75:
            ops.append(gen.gen_warm(rnd, arms))
        else:
            Q = gen.gen_Q(rnd, rnd.randint(1, 5), d, regime, stored) if ctxl else rnd.choice([None, [[1]], [[1], [2]]])
            ops.append({"op": rnd.choice(["predict", "expect"]), "Q": Q})
    Q = gen.gen_Q(rnd, rnd.randint(1, 4), d, regime, stored) if ctxl else None
    ops.append({"op": "expect", "Q": Q})
    jobs = None
    from ..world import lp_class, np_class
    if rnd.random() < 0.3 and not (np_class(cfg) == "TreeBandit" and lp_class(cfg) in ("ThompsonSampling", "EpsilonGreedy>0")):
        # the refitted bandit trains with n_jobs > 1 under seeded worker schedules, the fresh one with n_jobs = 1
        # (TreeBandit + ThompsonSampling / EpsilonGreedy(eps>0) excluded: known finding KF-C05-treebandit-shared-rng)
        jobs = {"n_jobs": rnd.choice([2, 3, -1]), "backend": rnd.choice([None, "threading"])}
        for o in ops:
            if o["op"] in ("fit", "partial_fit"):
                o["sched"] = kernel.Sched.draw(rnd)
    return {"cfg": cfg, "regime": regime, "ops": ops, "jobs": jobs}


def execute(case, ctx):
    cfg = case["cfg"]
    rtol = tol_for(cfg, case["regime"])
    P = Session(cfg, **(case.get("jobs") or {}))
    F = None              # shadow: the fresh bandit created at the last refit
    since_fit = set()
    for step, op in enumerate(case["ops"]):
        kind = op["op"]
        ctx.ev("op", kind, step)
        ctx.fired("ops")
        if kind == "fit" and P.fitted and P.can_train("fit", P.valid_rows(op["rows"])):
            ctx.fired("fault.refit")
            rows = P.valid_rows(op["rows"])
            if P.ctxl and len(rows[0][2]) != P.d:
                ctx.fired("probe.refit_other_columns")
            if len(rows) < P.n_rows:
                ctx.fired("probe.refit_smaller")
            if op.get("same_contexts"):
                ctx.fired("probe.refit_same_contexts_other_outcomes")
            for k in since_fit:
                ctx.fired("probe.refit_after_" + k)
            since_fit = set()
            F = Session(cfg, arms=list(P.mab.arms))
            F.mab._rng.rng.bit_generator.state = P.mab._rng.rng.bit_generator.state
            rp = P.apply(op, sched=op.get("sched"))
            rf = F.apply(op)
            ctx.fired("ops.train")
            if rp != rf:
                ctx.violate("refit-result-differs", step, {"primary": rp, "fresh": rf})
                return
            if rp[0] != "ok":
                F = None
                continue
            if sync_streams(P.mab, F.mab) is False:
                from ..world import alias_partition
                ctx.violate("generator-aliasing-survives-fit", step, {"refit": alias_partition(P.mab),
                                                                      "fresh": alias_partition(F.mab)})
                return
            d = same_params(P, F, ctx, rtol)
            if d:
                ctx.violate("state-survives-fit", step, {"diff": d})
                return
            continue
        if kind in ("add_arm", "remove_arm"):
            since_fit.add("arm_change")
        if kind == "warm_start":
            since_fit.add("warm_start")
        if F is None:
            r = P.apply(op, sched=op.get("sched"))
            if kind in ("fit", "partial_fit") and r[0] == "ok":
                ctx.fired("ops.train")
            continue
        if kind in ("predict", "expect"):
            c = observe_same(P, F, [op], ctx, rtol)
            if c:
                ctx.violate("observation-%s-differ" % c[0], step, {"diff": c[1], "op": kind})
                return
        else:
            rp = P.apply(op, sched=op.get("sched"))
            rf = F.apply(op)
            if kind in ("fit", "partial_fit") and rp[0] == "ok":
                ctx.fired("ops.train")
            if rp[0] != rf[0] or (rp[0] == "exc" and rp[1] != rf[1]):
                ctx.violate("continuation-status-differs", step, {"primary": rp, "fresh": rf, "op": kind})
                return
            d = same_params(P, F, ctx, rtol)
            if d:
                ctx.violate("continuation-state-differs", step, {"diff": d, "op": kind})
                return
