"""C18 -- results are independent of the data container type; inputs are never modified.

Invariant part (state shared between caller, bandit and other bandits): byte-level snapshots of every caller-owned
object -- data containers, the arms list, policy tuples and the objects inside them, the arm-feature dict -- are compared
around every call; F-CALLER: the caller mutates the arms list it constructed the bandit from; F-INTERFERE: the same policy
tuple objects are reused for a second bandit. Differential part: the replica receives each operation's data in another
container type drawn per operation and must return exactly what the list-fed primary returns.
"""
import pickle

import numpy as np
import pandas as pd

from .. import gen
from ..oracles import compare_results
from ..world import CONTAINERS, Session, is_contextual, make_lp, make_np

ID = "C18"
LEVEL = "exploration"
QUICK_RUNS = 3200
RULE = ("Each run: drawn policy combination (default-constructed policy tuples included), integer-valued data; primary fed "
        "lists, replica fed a container drawn per operation (ndarray C/F/transposed/non-contiguous, int/float dtype, "
        "Series, DataFrame, single-row/single-feature Series); snapshots of all caller objects around every call; the "
        "caller mutates its arms list and reuses its policy tuples for another bandit at drawn points.")
EXPECTED_PROBES = ["fault.caller_mutates_arms", "fault.interfere_shared_policy_tuple", "probe.container.series_auto",
                   "probe.container.ndarray_T", "probe.default_constructed_treebandit"]


def snap(o):
    if isinstance(o, np.ndarray):
        return ("nd", o.dtype.str, o.shape, o.strides, o.tobytes())
    if isinstance(o, pd.DataFrame):
        return ("df", tuple(map(str, o.columns)), tuple(map(str, o.index)), snap(o.to_numpy()))
    if isinstance(o, pd.Series):
        return ("sr", tuple(map(str, o.index)), snap(o.to_numpy()))
    if o is None:
        return None
    try:
        return ("pk", pickle.dumps(o, protocol=4))
    except Exception:
        return ("repr", repr(o))


def generate(rnd, tier, index=0):
    if rnd.random() < 0.05:
        # large batches in a narrow integer dtype: every value fits (0/1 clicks as uint8 / int8), the per-arm counts and
        # sums do not (more than 127 / 255 successes in one batch)
        from ..world import CONTEXT_FREE
        lp = gen.gen_lp(rnd, names=CONTEXT_FREE)
        cfg, spare = gen.gen_cfg(rnd, lp=lp, with_np=False, arms_hi=3)
        rk = "binary" if lp[0] == "ThompsonSampling" else rnd.choice(["binary", "nonneg"])
        cont = rnd.choice(["ndarray_u8", "ndarray_i8"])
        ops = []
        for k in ("fit", "partial_fit"):
            rows = gen.gen_rows(rnd, cfg["arms"], rnd.randint(300, 700), 1, "exact", rk, False)
            ops += [{"op": k, "rows": rows, "container": cont}, {"op": "expect", "Q": None, "container": "list"}]
        return {"cfg": cfg, "ops": ops, "default_np": False, "d": 1}
    cfg, spare = gen.gen_cfg(rnd, with_np=rnd.random() < 0.75, scale=True)
    default_np = False
    if cfg["np"] and cfg["np"][0] == "TreeBandit" and rnd.random() < 0.5:
        cfg["np"] = ["TreeBandit", {}]        # NeighborhoodPolicy.TreeBandit(): the class-level default dict
        default_np = True
    ctxl = is_contextual(cfg)
    d = rnd.randint(1, 3)
    # arm changes also with an explicit no_nhood_prob_of_arm list: a later empty-neighbourhood predict raises for list-fed
    # primary and replica alike (caller inconsistency, no claim), but the caller's list must still not be touched
    ops = gen.gen_history(rnd, cfg, spare, d, "exact", rnd.randint(4, 12), warm=True, max_rows=10)
    if cfg["np"] and cfg["np"][0] == "TreeBandit" and len(cfg["arms"]) > 2 and rnd.random() < 0.3:
        # only ONE arm is ever trained and it is removed later: queries then meet a bandit without any fitted tree
        x = cfg["arms"][rnd.randrange(len(cfg["arms"]))]
        ops = [{"op": "fit", "rows": gen.gen_rows(rnd, [x], rnd.randint(1, 6), d, "exact", "binary", True)},
               {"op": "expect", "Q": gen.gen_Q(rnd, rnd.randint(1, 3), d, "exact")},
               {"op": "remove_arm", "arm": x},
               {"op": "expect", "Q": gen.gen_Q(rnd, rnd.randint(1, 3), d, "exact")},
               {"op": "predict", "Q": gen.gen_Q(rnd, 1, d, "exact")},
               {"op": "add_arm", "arm": x},
               {"op": "partial_fit", "rows": gen.gen_rows(rnd, cfg["arms"], rnd.randint(1, 6), d, "exact", "binary", True)},
               {"op": "expect", "Q": gen.gen_Q(rnd, rnd.randint(1, 3), d, "exact")}]
    for op in ops:
        if op["op"] in ("fit", "partial_fit", "predict", "expect"):
            choices = list(CONTAINERS)
            if not ctxl and op["op"] in ("predict", "expect"):
                choices = [c for c in choices if not c.startswith("series")]   # see DESIGN C18: outside the quantifier
            op["container"] = rnd.choice(choices)
            if op["container"] in ("ndarray_i8", "ndarray_u8", "ndarray_i16") and ctxl:
                # narrow integer arrays: values that are representable in the dtype but whose products / sums are not
                # (|x| <= 30 in int8: x*x overflows; |x| <= 180 in int16: x*x + x*x overflows)
                f = 60 if op["container"] == "ndarray_i16" else 10
                for r in (op["rows"] if "rows" in op else []):
                    r[2] = [x * f for x in r[2]]
                if op.get("Q"):
                    op["Q"] = [[x * f for x in q] for q in op["Q"]]
            if op["op"] in ("fit", "partial_fit") and rnd.random() < 0.25 and ctxl:
                # force the Series disambiguation shapes: one row, or one feature
                op["container"] = "series_auto"
                if rnd.random() < 0.5 or d > 1:
                    op["rows"] = op["rows"][:1]
    if rnd.random() < 0.15:
        # buffer reuse: the replica's caller keeps one pre-allocated array per argument and overwrites it in place for the
        # next call (fixed batch / query sizes, so the very same ndarray objects come back with other contents). Training
        # buffers only for policies that do not keep the training arrays (no neighbourhood policy): a bandit that stores
        # the caller's array by reference is not covered by any property, and is not probed.
        n0, m0 = rnd.randint(2, 4), rnd.randint(1, 3)
        how = "reuse:" + rnd.choice(["ndarray", "ndarray_F", "list", "series_frame"])
        for op in ops:
            if op["op"] in ("fit", "partial_fit") and (cfg["np"] is None or how == "reuse:list"):
                # (a list is converted into a new array by every call, so list re-use is sound under every policy)
                if len(op["rows"]) >= n0:
                    op["rows"] = op["rows"][:n0]
                op["container"] = how
            elif op["op"] in ("predict", "expect") and op.get("Q"):
                op["Q"] = op["Q"][:m0]
                op["container"] = how
    # later training batches may carry dyadic fractions while the first one is all integers: the history starts as an int
    # array for the list-fed primary and as a float array for a replica fed float containers (sums stay exact in binary64)
    first_train = next((i for i, o in enumerate(ops) if o["op"] in ("fit", "partial_fit")), None)
    if first_train is not None and rnd.random() < 0.4:
        for o in ops[first_train + 1:]:
            if o["op"] == "partial_fit" and rnd.random() < 0.7:
                for r in o["rows"]:
                    if cfg["lp"][0] != "ThompsonSampling":
                        r[1] = r[1] + 0.5
                    if r[2] is not None:
                        r[2] = [x + 0.5 for x in r[2]]
    extra = []
    for i in range(len(ops) + 1):
        u = rnd.random()
        if u < 0.12:
            extra.append((i, {"op": "caller_mutates_arms", "how": rnd.choice(["append", "reverse", "clear", "pop"])}))
        elif u < 0.24:
            extra.append((i, {"op": "interfere", "seed": rnd.randrange(2 ** 20), "n": rnd.randint(2, 8)}))
    for i, e in reversed(extra):
        ops.insert(i, e)
    return {"cfg": cfg, "ops": ops, "default_np": default_np, "d": d}


def execute(case, ctx):
    from mabwiser.mab import MAB, NeighborhoodPolicy
    cfg = case["cfg"]
    P = Session(cfg)
    # the replica is built from caller-owned objects we keep hold of
    arms_obj = list(cfg["arms"])
    lp_obj = make_lp(cfg["lp"])
    if case.get("default_np"):
        np_obj = NeighborhoodPolicy.TreeBandit()
        ctx.fired("probe.default_constructed_treebandit")
    else:
        np_obj = make_np(cfg["np"])
    owned = {"arms": arms_obj, "lp": lp_obj, "np": np_obj}
    if np_obj is not None:
        for f, v in np_obj._asdict().items():
            if isinstance(v, (dict, list)):
                owned["np." + f] = v
    before = {k: snap(v) for k, v in owned.items()}
    mab = MAB(arms_obj, lp_obj, np_obj, seed=cfg["seed"], n_jobs=cfg["n_jobs"], backend=cfg["backend"])
    ctx.fired("oracle.comparisons")
    for k, v in owned.items():
        if snap(v) != before[k]:
            ctx.violate("caller-object-modified", 0, {"object": k, "by": "__init__"}, obj=k.split(".")[-1], by="__init__")
            return
    R = Session(cfg, mab=mab)
    arms_mutated = False
    for step, op in enumerate(case["ops"]):
        kind = op["op"]
        ctx.ev("op", kind, step)
        ctx.fired("ops")
        if kind == "caller_mutates_arms":
            ctx.fired("fault.caller_mutates_arms")
            ctx.ev("fault", "caller", op["how"])
            if op["how"] == "append":
                arms_obj.append("zz")
            elif op["how"] == "reverse":
                arms_obj.reverse()
            elif op["how"] == "clear":
                del arms_obj[:]
            elif op["how"] == "pop" and arms_obj:
                arms_obj.pop()
            arms_mutated = True
            before["arms"] = snap(arms_obj)
            ctx.fired("oracle.comparisons")
            if list(R.mab.arms) != list(P.mab.arms):
                ctx.violate("bandit-arms-follow-callers-list", step, {"bandit": list(R.mab.arms), "expected": list(P.mab.arms)})
                return
            continue
        if kind == "interfere":
            ctx.fired("fault.interfere_shared_policy_tuple")
            ctx.ev("fault", "interfere", op["seed"])
            try:
                B = Session(cfg, mab=MAB(list(P.mab.arms), lp_obj, np_obj, seed=op["seed"]))
                import random as _r
                rr = _r.Random(op["seed"])
                rows = gen.gen_rows(rr, list(P.mab.arms), max(op["n"], B.min_rows() + 1), case["d"], "exact",
                                    "binary", B.ctxl)
                B.apply({"op": "fit", "rows": rows})
                B.apply({"op": "predict", "Q": [rows[0][2]] if B.ctxl else None})
            except Exception as e:   # noqa
                ctx.ev("interfere_exc", type(e).__name__)
        else:
            cont = op.get("container", "list")
            ctx.fired("probe.container." + cont)
            snaps = {}

            def hook(phase, objs):
                if phase == "before":
                    snaps["b"] = [snap(o) for o in objs]
                else:
                    snaps["a"] = [snap(o) for o in objs]
            rp = P.apply(op)
            rr_ = R.apply(op, container=cont, hook=hook)
            if rp[0] == "ok" and kind in ("fit", "partial_fit"):
                ctx.fired("ops.train")
            if rp[0] == "skip" and rr_[0] == "skip":
                continue
            ctx.fired("oracle.comparisons")
            if snaps.get("b") != snaps.get("a"):
                which = [i for i, (x, y) in enumerate(zip(snaps["b"], snaps["a"])) if x != y]
                ctx.violate("caller-object-modified", step, {"object": "argument %r of %s" % (which, kind),
                                                             "container": cont}, obj="data", by=kind)
                return
            c = compare_results(rp, rr_)
            if c:
                ctx.violate("container-%s-differ" % c[0], step, {"op": kind, "container": cont, "diff": c[1]},
                            container=cont)
                return
        ctx.fired("oracle.comparisons")
        for k, v in owned.items():
            if snap(v) != before[k]:
                ctx.violate("caller-object-modified", step, {"object": k, "by": kind}, obj=k.split(".")[-1], by=kind)
                return
        if list(R.mab.arms) != list(P.mab.arms):
            ctx.violate("bandit-arms-follow-callers-list", step, {"bandit": list(R.mab.arms), "expected": list(P.mab.arms)})
            return
