"""C20 -- results are invariant to arm names and to the order of training rows (F-REORDER + input symmetries).

reorder  the replica receives the same multiset of rows since the last fit in another order AND another chunking
         (convergence of replicas under reordered delivery) -- context-free, linear, Radius / LSHNearest over them.
relabel  one-to-one relabelling int <-> str <-> float keeping arm order: outputs renamed, otherwise equal (same seed).
shift    reward + c: greedy / UCB1 expectations + c, Softmax unchanged (every arm observed).
scale    reward * c: LinGreedy expectations * c.
The last three are pure input symmetries (no schedule or fault in them); they ride on the same machinery and are
claimed at the weakest level (see MANIFEST level_note).
"""
from .. import gen
from ..oracles import compare_results
from ..twin import obs_ops, observe_same
from ..world import LINEAR, Session, diff, is_contextual, pview, sync_streams, tol_for

ID = "C20"
LEVEL = "exploration"
QUICK_RUNS = 4000
RULE = ("Each run draws a mode (reorder 55%, relabel 25%, shift 10%, scale 10%), a policy combination inside the mode's "
        "quantifier, a data regime and a training stream; reorder: drawn permutation and two independent chunkings.")
EXPECTED_PROBES = ["fault.reorder", "probe.mode.relabel", "probe.mode.shift", "probe.mode.scale",
                   "probe.reorder_changed_chunk_membership"]
RELABEL = {"int": gen.ARM_POOLS["int"], "str": gen.ARM_POOLS["str"], "float": gen.ARM_POOLS["float"]}


def _chunks(rnd, n, first_min):
    cuts = []
    pos = max(first_min, rnd.randint(1, max(1, n)))
    pos = min(pos, n)
    while pos < n:
        cuts.append(pos)
        pos += rnd.randint(1, max(1, n - pos))
    return cuts


def generate(rnd, tier, index=0):
    u = rnd.random()
    mode = "reorder" if u < 0.55 else "relabel" if u < 0.80 else "shift" if u < 0.90 else "scale"
    regime = rnd.choice(["exact", "exact", "float"])
    if mode == "reorder" and rnd.random() < 0.03:
        # one LARGE fit (more than a thousand rows per arm, drifting feature distribution) of a linear policy with
        # scale=True, delivered once in time order and once shuffled: any block-wise / running computation inside a single
        # training call shows up as order dependence
        lp = gen.gen_lp(rnd, rnd.choice(["LinGreedy", "LinUCB"]))
        lp[1]["scale"] = True
        if lp[0] == "LinGreedy":
            lp[1]["epsilon"] = 0
        cfg, spare = gen.gen_cfg(rnd, lp=lp, with_np=False, arms_lo=2, arms_hi=2)
        d = rnd.randint(1, 2)
        n = rnd.randint(2200, 2700)
        rows = gen.gen_rows(rnd, cfg["arms"], n, d, "float", "real", True)
        for i, r in enumerate(rows):
            r[2] = [round(x + 6.0 * i / n, 6) for x in r[2]]
        perm = list(range(n))
        rnd.shuffle(perm)
        Q = gen.gen_Q(rnd, rnd.randint(1, 3), d, "float", [r[2] for r in rows[:50]])
        return {"cfg": cfg, "regime": "float", "mode": mode, "rows": rows, "perm": perm, "cuts1": [], "cuts2": [], "Q": Q,
                "ops": [], "big": True}
    if mode == "reorder":
        cfg, spare = gen.gen_cfg(rnd, with_np=rnd.random() < 0.5, np_names=("Radius", "LSHNearest"))
        cfg["n_jobs"] = rnd.choice([1, 1, 2, 3])       # rows are hashed / arms are fit in several blocks
        ctxl = is_contextual(cfg)
        d = rnd.randint(1, 3)
        n = rnd.randint(2, 24)
        rows = gen.gen_rows(rnd, cfg["arms"], n, d, regime, gen.reward_kind_for(rnd, cfg, regime), ctxl,
                            omit=gen.some_omitted(rnd, cfg["arms"]))
        perm = list(range(n))
        rnd.shuffle(perm)
        Q = gen.gen_Q(rnd, rnd.randint(1, 4), d, regime, [r[2] for r in rows]) if ctxl else None
        return {"cfg": cfg, "regime": regime, "mode": mode, "rows": rows, "perm": perm, "cuts1": _chunks(rnd, n, 1),
                "cuts2": _chunks(rnd, n, 1), "Q": Q, "ops": []}
    if mode == "relabel":
        cfg, spare = gen.gen_cfg(rnd, with_np=rnd.random() < 0.7, binarizer=False, allow_probs=True)
        if cfg["lp"][0] == "ThompsonSampling" and rnd.random() < 0.5:
            cfg["lp"][1]["binarizer"] = rnd.choice(["gt10", "ge5_int"])     # arm-independent binarizers only
        d = rnd.randint(1, 3)
        ops = gen.gen_history(rnd, cfg, spare, d, regime, rnd.randint(3, 10), warm=True, max_rows=12,
                              arm_changes=not (cfg["np"] and cfg["np"][1].get("no_nhood_prob_of_arm")))
        src = type(cfg["arms"][0]).__name__
        dst = rnd.choice([k for k in RELABEL if k != src])
        all_arms = list(cfg["arms"]) + [a for a in spare]
        pool = list(RELABEL[dst])
        rnd.shuffle(pool)
        mapping = [[a, pool[i]] for i, a in enumerate(all_arms)]
        return {"cfg": cfg, "regime": regime, "mode": mode, "ops": ops, "mapping": mapping}
    if mode == "shift":
        lp = gen.gen_lp(rnd, rnd.choice(["EpsilonGreedy", "UCB1", "Softmax"]))
        cfg, spare = gen.gen_cfg(rnd, lp=lp, with_np=False)
        c = rnd.choice([1, -2, 8, 0.5, 100]) if regime == "exact" else round(rnd.uniform(-50, 50), 3)
    else:
        lp = gen.gen_lp(rnd, "LinGreedy")
        lp[1]["epsilon"] = 0
        cfg, spare = gen.gen_cfg(rnd, lp=lp, with_np=False)
        c = rnd.choice([2, 0.5, 8, -4, 0.125]) if regime == "exact" else round(rnd.uniform(-5, 5), 3) or 1.5
    ctxl = is_contextual(cfg)
    d = rnd.randint(1, 3)
    rk = "smallint" if regime == "exact" else "real"
    ops = []
    for k in range(rnd.randint(1, 4)):
        rows = gen.gen_rows(rnd, cfg["arms"], rnd.randint(2, 12), d, regime, rk, ctxl)
        if k == 0:
            rows += [[a, gen.gen_reward(rnd, rk), gen.gen_ctx(rnd, d, regime) if ctxl else None] for a in cfg["arms"]]
        ops.append({"op": "fit" if k == 0 else "partial_fit", "rows": rows})
    Q = gen.gen_Q(rnd, rnd.randint(1, 4), d, regime) if ctxl else None
    return {"cfg": cfg, "regime": regime, "mode": mode, "ops": ops, "c": c, "Q": Q}


def shrink_paths(case):
    if case["mode"] == "reorder":
        return []
    return [("ops",)]


def execute(case, ctx):
    ctx.fired("probe.mode." + case["mode"])
    {"reorder": _reorder, "relabel": _relabel, "shift": _law, "scale": _law}[case["mode"]](case, ctx)


def _deliver(S, rows, cuts, ctx, label):
    bounds = [0] + [c for c in cuts if 0 < c < len(rows)] + [len(rows)]
    bounds = sorted(set(bounds))
    ok = True
    for i in range(len(bounds) - 1):
        chunk = rows[bounds[i]:bounds[i + 1]]
        op = {"op": "fit" if i == 0 else "partial_fit", "rows": chunk}
        ctx.ev("op", label + op["op"], len(chunk))
        ctx.fired("ops")
        r = S.apply(op)
        if r[0] == "ok":
            ctx.fired("ops.train")
        elif r[0] == "exc":
            ok = False
    return ok, [rows[bounds[i]:bounds[i + 1]] for i in range(len(bounds) - 1)]


def _reorder(case, ctx):
    cfg = case["cfg"]
    rows = case["rows"]
    perm = [p for p in case["perm"] if p < len(rows)]
    perm += [i for i in range(len(rows)) if i not in perm]
    rows2 = [rows[i] for i in perm]
    rtol = tol_for(cfg, case["regime"])
    atol = 1e-9 if cfg["lp"][0] in LINEAR else (0.0 if case["regime"] == "exact" else 1e-12)
    P, R = Session(cfg), Session(cfg)
    ok1, ch1 = _deliver(P, rows, case["cuts1"], ctx, "A:")
    ok2, ch2 = _deliver(R, rows2, case["cuts2"], ctx, "B:")
    ctx.fired("fault.reorder")
    ctx.ev("fault", "reorder", perm, case["cuts1"], case["cuts2"])
    if perm != sorted(perm) and len(ch1) > 1:
        ctx.fired("probe.reorder_changed_chunk_membership")
    if not (ok1 and ok2) or not P.fitted or not R.fitted:
        return
    if P.n_rows != R.n_rows:
        return      # a chunk was skipped by the total interpreter on one side only (e.g. rows of unknown arms)
    # expectations are compared; the stored history itself is legitimately in another order
    v1, v2 = pview(P.mab), pview(R.mab)
    for v in (v1, v2):
        v.pop("hist", None)
        v.pop("tables", None)
    ctx.fired("oracle.comparisons")
    d = diff(v1, v2, rtol, atol)
    if d:
        ctx.violate("model-depends-on-row-order", 0, {"diff": d})
        return
    if case["Q"] is not None and not P.can_query(case["Q"]):
        return
    c = observe_same(P, R, obs_ops(case["Q"]), ctx, rtol, atol)
    if c:
        ctx.violate("observation-%s-depend-on-row-order" % c[0], 1, {"diff": c[1]})


def _map_op(op, m):
    o = dict(op)
    if o["op"] in ("fit", "partial_fit"):
        o["rows"] = [[m[r[0]], r[1], r[2]] for r in o["rows"]]
    elif o["op"] in ("add_arm", "remove_arm"):
        o["arm"] = m[o["arm"]]
    elif o["op"] == "warm_start":
        o["features"] = [[m[a], f] for a, f in o["features"]]
    return o


def _map_val(val, m):
    if isinstance(val, list):
        return [_map_val(v, m) for v in val]
    if isinstance(val, dict):
        return {m[k]: v for k, v in val.items()}
    return m.get(val, val) if not isinstance(val, (dict, list)) and val is not None else val


def _relabel(case, ctx):
    cfg = case["cfg"]
    m = {a: b for a, b in case["mapping"]}
    cfg2 = dict(cfg, arms=[m[a] for a in cfg["arms"]])
    P, R = Session(cfg), Session(cfg2)
    for step, op in enumerate(case["ops"]):
        ctx.ev("op", op["op"], step)
        ctx.fired("ops")
        rp = P.apply(op)
        rr = R.apply(_map_op(op, m))
        if rp[0] == "ok" and op["op"] in ("fit", "partial_fit"):
            ctx.fired("ops.train")
            ctx.fired("fault.history_step")
        if rp[0] == "skip" and rr[0] == "skip":
            continue
        ctx.fired("oracle.comparisons")
        if rp[0] == "ok" and op["op"] in ("predict", "expect"):
            rp = ("ok", _map_val(rp[1], m))
        c = compare_results(rp, rr)
        if c:
            ctx.violate("relabelled-%s-differ" % c[0], step, {"op": op["op"], "diff": c[1]})
            return
        if [m[a] for a in P.mab.arms] != list(R.mab.arms):
            ctx.violate("relabelled-arm-list-differs", step, {"orig": list(P.mab.arms), "relabelled": list(R.mab.arms)})
            return


def _law(case, ctx):
    cfg = case["cfg"]
    c = case["c"]
    mode = case["mode"]
    P, R = Session(cfg), Session(cfg)
    exact = case["regime"] == "exact"
    for step, op in enumerate(case["ops"]):
        ctx.ev("op", op["op"], step)
        ctx.fired("ops")
        rows2 = [[r[0], (r[1] + c) if mode == "shift" else (r[1] * c), r[2]] for r in op["rows"]]
        rp = P.apply(op)
        rr = R.apply({"op": op["op"], "rows": rows2})
        if rp[0] != "ok" or rr[0] != "ok":
            return
        ctx.fired("ops.train")
        ctx.fired("fault.history_step")
        seen = set(r[0] for o in case["ops"][:step + 1] for r in o["rows"])
        if not set(P.mab.arms) <= seen:
            continue
        ctx.fired("oracle.comparisons")
        if mode == "shift":
            e1, e2 = dict(P.mab._imp.arm_to_expectation), dict(R.mab._imp.arm_to_expectation)
            if cfg["lp"][0] == "Softmax":
                want = e1
                tol = 1e-9
            else:
                want = {a: v + c for a, v in e1.items()}
                tol = 1e-12
            d = diff(want, e2, tol, tol * max(1.0, abs(c)))
            if d:
                ctx.violate("reward-shift-law", step, {"c": c, "diff": d})
                return
        else:
            if not sync_streams(P.mab, R.mab):
                return
            q = {"op": "expect", "Q": case["Q"]}
            a, b = P.apply(q), R.apply(q)
            if a[0] != "ok" or b[0] != "ok":
                return
            m = len(case["Q"])
            la = a[1] if m > 1 else [a[1]]
            lb = b[1] if m > 1 else [b[1]]
            want = [{k: v * c for k, v in e.items()} for e in la]
            power2 = exact and abs(c) in (0.125, 0.25, 0.5, 1, 2, 4, 8)
            d = diff(want, lb, 0.0 if power2 else 1e-7, 0.0 if power2 else 1e-9)
            if d:
                ctx.violate("reward-scale-law", step, {"c": c, "diff": d})
                return
