"""C12 -- Clusters and TreeBandit condition on exactly the query's cell.

Oracle (RefCells). The fitted scikit-learn objects are READ from the implementation (the property is about conditioning
on the cell, not about how cells are learnt). Clusters: rows with kmeans.labels_ == kmeans.predict(q), answered by a fresh
real learning-policy bandit trained on exactly those rows with the per-row generator. TreeBandit: per arm, the arm's rows
since the last fit whose arm_to_tree[arm].apply(row) equals the query's leaf; statistic = mean (EpsilonGreedy), UCB1 with
N = n = leaf count, Beta(1+s, 1+f) by sampler replay on a clone of the bandit's generator; an arm without observations
keeps 0.
"""
import math

import numpy as np

from .. import gen, kernel
from ..world import CLUSTER_LPS, Session, clone_rng, diff
from .c03 import _fresh_policy_answer

ID = "C12"
LEVEL = "exploration"
QUICK_RUNS = 3200
RULE = ("Each run: Clusters (n_clusters 2..4, KMeans / MiniBatchKMeans) over a compatible policy, or TreeBandit (drawn "
        "max_depth / min_samples_leaf / max_leaf_nodes) over EpsilonGreedy / UCB1 / ThompsonSampling; history with fit, "
        "partial_fit, arm changes and restarts; queries under seeded schedules and random partitions (deterministic "
        "policies) or at n_jobs=1 with sampler replay (randomised TreeBandit policies).")
EXPECTED_PROBES = ["probe.clusters", "probe.treebandit", "probe.arm_without_observations", "probe.after_partial_fit",
                   "probe.after_arm_change", "probe.leaf_with_several_rewards", "probe.tree_sampler_replayed",
                   "probe.split_threshold_queried"]
INT32MAX = np.iinfo(np.int32).max


def generate(rnd, tier, index=0):
    regime = rnd.choice(["exact", "float"])
    if rnd.random() < 0.5:
        lp = gen.gen_lp(rnd, names=CLUSTER_LPS)
        kind, arms, spare = gen.gen_arms(rnd, hi=4)
        np_ = gen.gen_np(rnd, lp[0], len(arms), name="Clusters")
        n_jobs = rnd.choice([1, 2, 3])
    else:
        lp = gen.gen_lp(rnd, names=("EpsilonGreedy", "UCB1", "ThompsonSampling"))
        kind, arms, spare = gen.gen_arms(rnd, hi=4)
        np_ = gen.gen_np(rnd, lp[0], len(arms), name="TreeBandit")
        det = lp[0] == "UCB1" or (lp[0] == "EpsilonGreedy" and lp[1]["epsilon"] == 0)
        n_jobs = rnd.choice([1, 2, 3]) if det else 1
    cfg = {"arms": arms, "lp": lp, "np": np_, "seed": rnd.randrange(2 ** 20), "n_jobs": n_jobs,
           "backend": rnd.choice([None, "threading"])}
    d = rnd.randint(1, 3)
    ops = gen.gen_history(rnd, cfg, spare, d, regime, rnd.randint(3, 12), max_rows=16, refit=0.1,
                          sched=lambda r, op: kernel.Sched.draw(r) if op["op"] in ("predict", "expect") else None)
    for op in ops:
        if rnd.random() < 0.1:
            op["restart"] = rnd.choice(["deepcopy", "p4"])
    return {"cfg": cfg, "regime": regime, "ops": ops}


def _tree_expectations(P, cfg, hist_by_arm, Q, gen_clone, is_predict):
    """Documented TreeBandit computation with the ORACLE's leaf statistics (rows since the last fit per arm)."""
    imp = P.mab._imp
    name, kw = cfg["lp"]
    arms = list(P.mab.arms)
    out = []
    several = False
    for q in Q:
        exp = {}
        for a in arms:
            rows = hist_by_arm.get(a, [])
            if not rows:
                exp[a] = 0
                continue
            tree = imp.arm_to_tree[a]
            leaf = tree.apply(np.asarray([q], dtype=float))[0]
            leaves = tree.apply(np.asarray([r[2] for r in rows], dtype=float))
            rew = [r[1] for r, lf in zip(rows, leaves) if lf == leaf]
            n = len(rew)
            several = several or n > 1
            mean = (math.fsum(rew) / n) if n else 0
            if name == "EpsilonGreedy":
                eps = kw.get("epsilon", 0.1)
                if gen_clone.rand() < eps:
                    exp[a] = float(gen_clone.rand())
                else:
                    exp[a] = mean
            elif name == "UCB1":
                exp[a] = (mean + kw.get("alpha", 1) * math.sqrt(2 * math.log(n) / n)) if n else 0
            else:
                s = sum(1 for x in rew if x == 1)
                exp[a] = float(gen_clone.beta(1 + s, 1 + (n - s), 1)[0])
        if is_predict:
            if name == "EpsilonGreedy" and gen_clone.rand() < kw.get("epsilon", 0.1):
                out.append(arms[gen_clone.randint(0, len(arms))])
            else:
                best = None
                for a in arms:
                    if best is None or exp[a] > exp[best]:
                        best = a
                out.append(best)
        else:
            out.append(exp)
    return out, several


def execute(case, ctx):
    cfg = case["cfg"]
    npname = cfg["np"][0]
    ctx.fired("probe." + npname.lower())
    lpname = cfg["lp"][0]
    exact = case["regime"] == "exact"
    lin = lpname.startswith("Lin")
    rtol = (1e-9 if lin else (1e-12 if lpname in ("UCB1", "Softmax") else 0.0)) if exact else (1e-7 if lin else 1e-9)
    atol = (1e-9 if lin else 0.0) if exact else (1e-7 if lin else 1e-9)
    P = Session(cfg)
    hist = []          # TreeBandit: rows since the last fit of arms that have been present ever since
    hist_all = []      # Clusters: every stored row since the last fit (rows of removed arms still shape the clusters)
    effective = []     # Clusters: indices into hist_all the cluster policies were trained on
    removed = set()    # labels removed since the last training call: their rows still count in N, never for an arm
    n_train = 0
    changed = False
    for step, op in enumerate(case["ops"]):
        kind = op["op"]
        ctx.ev("op", kind, step)
        ctx.fired("ops")
        if kind in ("fit", "partial_fit"):
            rows = P.valid_rows(op["rows"])
            first = not P.fitted
            r = P.apply(op)
            if r[0] == "ok":
                ctx.fired("ops.train")
                n_train += 1
                hist = list(rows) if (kind == "fit" or first) else hist + list(rows)
                hist_all = list(rows) if (kind == "fit" or first) else hist_all + list(rows)
                effective = list(range(len(hist_all)))
                removed = {h[0] for h in hist_all if h[0] not in P.mab.arms}
                if kind == "fit" or first:
                    n_train = 1
            elif r[0] == "exc":
                ctx.violate("valid-training-raised", step, {"exc": r[1]})
                return
        elif kind in ("add_arm", "remove_arm", "warm_start"):
            if P.apply(op)[0] == "ok" and kind != "warm_start":
                changed = True
                if kind == "remove_arm":
                    hist = [h for h in hist if h[0] != op["arm"]]
                    removed.add(op["arm"])
        else:
            Q = op["Q"]
            if not P.can_query(Q):
                continue
            is_predict = kind == "predict"
            arms = list(P.mab.arms)
            if n_train > 1:
                ctx.fired("probe.after_partial_fit")
            if changed:
                ctx.fired("probe.after_arm_change")
            if any(not any(h[0] == a for h in hist) for a in arms):
                ctx.fired("probe.arm_without_observations")
            gen_clone = clone_rng(P.mab._imp.rng)
            seeds = clone_rng(P.mab._imp.rng).randint(INT32MAX, size=len(Q))
            r = P.apply(op, sched=op.get("sched"))
            if r[0] != "ok":
                ctx.violate("query-raised", step, {"res": r})
                return
            got = r[1] if len(Q) > 1 else [r[1]]
            if not isinstance(got, list) or len(got) != len(Q):
                ctx.violate("result-length", step, {"want": len(Q), "got": len(got) if isinstance(got, list) else "no list"})
                return
            if npname == "Clusters":
                imp = P.mab._imp
                labels = imp.kmeans.labels_
                if len(labels) != len(hist_all):
                    ctx.violate("cluster-labels-do-not-cover-history", step, {"labels": len(labels), "rows": len(hist_all)})
                    return
                for i, q in enumerate(Q):
                    ctx.fired("oracle.comparisons")
                    cell = imp.kmeans.predict(np.asarray([q], dtype=imp.contexts.dtype))[0]
                    sentinel = {int: -999, float: -999.5, str: "__removed__"}[type(arms[0])]
                    members = [hist_all[j] if hist_all[j][0] not in removed else [sentinel] + list(hist_all[j][1:])
                               for j in effective if labels[j] == cell]
                    if lpname == "LinTS":
                        # randomised through per-arm generators: compare the distribution parameters (beta, A_inv)
                        d = _lints_params(cfg, arms, members, q, imp.lp_list[cell], rtol, atol)
                        if d is None and list(got[i].keys() if not is_predict else arms) != arms:
                            d = "keys"
                    else:
                        want = _fresh_policy_answer(cfg, arms, members, q, seeds[i], is_predict)
                        d = diff(want, got[i], rtol, atol)
                    if d:
                        ctx.violate("cluster-cell", step, {"row": i, "query": q, "cell": int(cell), "diff": d})
                        return
            else:
                gen_clone.randint(INT32MAX, size=len(Q))          # the seeds the bandit draws first
                by_arm = {}
                for h in hist:
                    by_arm.setdefault(h[0], []).append(h)
                want, several = _tree_expectations(P, cfg, by_arm, Q, gen_clone, is_predict)
                if several:
                    ctx.fired("probe.leaf_with_several_rewards")
                if lpname == "ThompsonSampling" or (lpname == "EpsilonGreedy" and cfg["lp"][1]["epsilon"] > 0):
                    ctx.fired("probe.tree_sampler_replayed")
                ctx.fired("oracle.comparisons")
                d = diff(want, got, rtol, atol)
                if d:
                    ctx.violate("tree-leaf", step, {"diff": d, "query": Q})
                    return
                # boundary probe: queries placed ON a split threshold of a fitted tree and one float64 ulp above it (the
                # tree compares single-precision feature values; "the same leaf as the query" is the leaf the tree itself
                # assigns). Asked on a copy, so the primary's streams do not move.
                Qb = _threshold_queries(P.mab._imp, arms, Q[0])
                if Qb:
                    B = P.clone()
                    gc = clone_rng(B.mab._imp.rng)
                    gc.randint(INT32MAX, size=len(Qb))
                    rb = B.apply({"op": "expect", "Q": Qb})
                    if rb[0] != "ok":
                        ctx.violate("query-raised", step, {"res": rb, "boundary": Qb})
                        return
                    gotb = rb[1] if len(Qb) > 1 else [rb[1]]
                    wantb, _ = _tree_expectations(B, cfg, by_arm, Qb, gc, False)
                    ctx.fired("probe.split_threshold_queried")
                    ctx.fired("oracle.comparisons")
                    d = diff(wantb, gotb, rtol, atol)
                    if d:
                        ctx.violate("tree-leaf", step, {"diff": d, "query": Qb, "boundary": True})
                        return
        if op.get("restart"):
            P = P.clone(op["restart"])
            ctx.fired("fault.restart")


def _threshold_queries(imp, arms, base, cap=6):
    out = []
    for a in arms:
        tree = imp.arm_to_tree.get(a)
        t = getattr(tree, "tree_", None)
        if t is None:
            continue
        for f, thr in zip(t.feature, t.threshold):
            if f < 0 or len(out) >= cap:
                continue
            for v in (float(thr), float(np.nextafter(thr, np.inf))):
                q = [float(x) for x in base]
                q[int(f)] = v
                out.append(q)
    return out[:cap]


def _lints_params(cfg, arms, members, q, cluster_lp, rtol, atol):
    from ..world import make_mab
    F = make_mab({"arms": list(arms), "lp": cfg["lp"], "np": None, "seed": 1})
    dec = np.asarray([r[0] for r in members])
    rew = np.asarray([r[1] for r in members])
    X = np.asarray([r[2] for r in members]).reshape(len(members), len(q))
    F._imp.fit(dec, rew, X)
    want = {a: {"beta": m.beta, "A_inv": m.A_inv} for a, m in F._imp.arm_to_model.items()}
    have = {a: {"beta": m.beta, "A_inv": m.A_inv} for a, m in cluster_lp.arm_to_model.items()}
    return diff(want, have, rtol, atol)
