"""C14 -- a Thompson binarizer is applied to every reward exactly once (replica fed pre-converted rewards)."""
import numpy as np

from .. import gen, kernel
from ..binarizers import BINARIZERS
from ..oracles import compare_results
from ..world import Session, sync_streams

ID = "C14"
LEVEL = "exploration"
QUICK_RUNS = 3200
RULE = ("Each run: ThompsonSampling with a drawn binarizer (arm-dependent thresholds, none idempotent on {0,1}) alone "
        "or under a drawn neighbourhood policy; history of fit / partial_fit / queries / arm changes including "
        "add_arm(arm, new_binarizer); a replica WITHOUT binarizer receives binarizer(decision, reward) for every "
        "observation (the binarizer in force at that time) and must return exactly the same results from the same seed.")
EXPECTED_PROBES = ["probe.built_without_binarizer", "probe.add_arm_with_new_binarizer", "probe.reward_changed_by_second_application"]


def generate(rnd, tier, index=0):
    regime = rnd.choice(["exact", "float"])
    lp = ["ThompsonSampling", {"binarizer": rnd.choice(["gt10", "arm_thr", "lt_arm", "ge5_int"])}]
    cfg, spare = gen.gen_cfg(rnd, lp=lp, with_np=rnd.random() < 0.8, allow_probs=False)
    d = rnd.randint(1, 3)
    rkind = "anyint" if regime == "exact" else "anyreal"
    ops = gen.gen_history(rnd, cfg, spare, d, regime, rnd.randint(4, 14), max_rows=14, rkind="anyint", binarizers=True,
                          refit=0.1)
    late = rnd.random() < 0.3
    if late:
        # the bandit is built WITHOUT a binarizer (binary rewards) and gets its first one from add_arm later on
        first = next((i for i, o in enumerate(ops) if o["op"] == "add_arm"), None)
        if first is None and spare:
            first = rnd.randint(1, len(ops))
            ops.insert(first, {"op": "add_arm", "arm": spare[-1]})
        if first is not None:
            ops[first]["binarizer"] = rnd.choice(["gt10", "arm_thr", "lt_arm", "ge5_int"])
            for o in ops[:first]:
                if o["op"] in ("fit", "partial_fit"):
                    for r in o["rows"]:
                        r[1] = r[1] % 2
                if o["op"] == "add_arm":
                    o.pop("binarizer", None)
            cfg["lp"] = ["ThompsonSampling", {}]
    if rkind == "anyreal":
        start = 0
        if cfg["lp"][1].get("binarizer") is None:       # binary rewards until the first binarizer arrives
            start = next((i for i, o in enumerate(ops) if o["op"] == "add_arm" and o.get("binarizer")), len(ops))
        for op in ops[start:]:
            if op["op"] in ("fit", "partial_fit"):
                for r in op["rows"]:
                    r[1] = r[1] + rnd.choice([0.0, 0.25, 0.5])
    if rnd.random() < 0.3:
        # both bandits with n_jobs > 1; the one WITH the binarizer trains under seeded worker schedules (the binarizer is
        # called from the workers), queries run under the canonical schedule on both sides
        cfg["n_jobs"] = rnd.choice([2, 3, -1])
        cfg["backend"] = rnd.choice([None, "threading"])
        for o in ops:
            if o["op"] in ("fit", "partial_fit"):
                o["sched"] = kernel.Sched.draw(rnd)
    return {"cfg": cfg, "regime": regime, "ops": ops}


def _convert(rows, bname):
    if bname is None:
        return [list(r) for r in rows]
    f = BINARIZERS[bname]
    return [[r[0], int(bool(f(r[0], r[1]))), r[2]] for r in rows]


def execute(case, ctx):
    cfg = case["cfg"]
    cur_b = cfg["lp"][1].get("binarizer")       # None: built without a binarizer (binary rewards pass unchanged)
    if cur_b is None:
        ctx.fired("probe.built_without_binarizer")
    P = Session(cfg)
    R = Session(cfg, lp=["ThompsonSampling", {}])
    for step, op in enumerate(case["ops"]):
        kind = op["op"]
        ctx.ev("op", kind, step)
        ctx.fired("ops")
        op_r = op
        if kind in ("fit", "partial_fit"):
            op_r = {"op": kind, "rows": _convert(op["rows"], cur_b)}
            f = BINARIZERS[cur_b] if cur_b else (lambda a, r: r)
            if any(bool(f(r[0], int(bool(f(r[0], r[1]))))) != bool(f(r[0], r[1])) for r in op["rows"]):
                ctx.fired("probe.reward_changed_by_second_application")
        elif kind == "add_arm":
            op_r = {"op": "add_arm", "arm": op["arm"]}
        elif kind in ("predict", "expect"):
            # same seed and same calls => same stream positions; copying them makes that explicit and keeps
            # later comparisons meaningful
            if not sync_streams(P.mab, R.mab):
                ctx.violate("generator-aliasing-differs", step, None)
                return
        R0 = R.clone() if (kind in ("predict", "expect") and cfg.get("np") and cfg["np"][0] == "TreeBandit") else None
        rp = P.apply(op, sched=op.get("sched"))
        rr = R.apply(op_r)
        if rp[0] == "ok" and kind in ("fit", "partial_fit"):
            ctx.fired("ops.train")
            ctx.fired("fault.history_step")
        if rp[0] == "skip" and rr[0] == "skip":
            continue
        ctx.fired("oracle.comparisons")
        c = compare_results(rp, rr)
        if c:
            sig = {}
            if c[0] == "values" and cfg.get("np") and cfg["np"][0] == "TreeBandit" and R0 is not None \
                    and _twice_explains(R0, op, cur_b, rp):
                sig["kf"] = "treebandit-leaf-binarized-twice"
            ctx.violate("binarized-vs-preconverted-%s-differ" % c[0], step, {"op": kind, "diff": c[1]}, **sig)
            return
        if rp[0] == "ok" and kind == "add_arm" and op.get("binarizer") and P.cfg["lp"][0] == "ThompsonSampling":
            cur_b = op["binarizer"]
            ctx.fired("probe.add_arm_with_new_binarizer")


def _twice_explains(R0, op, bname, rp):
    """Known-finding discriminator: R0 is the pre-converted replica as it was just before the query (streams already
    equal to the primary's). Convert its stored leaf rewards a SECOND time and ask the same query: if that reproduces
    exactly what the binarizer bandit returned, the difference is the known double application and nothing else."""
    try:
        f = BINARIZERS[bname]
        imp = R0.mab._imp
        for arm in list(imp.arm_to_leaf_to_rewards):
            for leaf in list(imp.arm_to_leaf_to_rewards[arm]):
                rew = imp.arm_to_leaf_to_rewards[arm][leaf]
                imp.arm_to_leaf_to_rewards[arm][leaf] = np.asarray([int(bool(f(arm, x))) for x in rew], dtype=rew.dtype)
        r2 = R0.apply(op)
        return compare_results(rp, r2) is None
    except Exception:
        return False
