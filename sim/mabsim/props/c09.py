"""C09 -- predict returns the first arg-max (arm order) of the expectations, from the same model and stream position."""
import math

from .. import gen, kernel
from ..oracles import as_list, first_argmax
from ..world import Session, is_contextual, lp_class, np_class

ID = "C09"
LEVEL = "exploration"
QUICK_RUNS = 3200
RULE = ("Each run: drawn policy combination (TreeBandit+EpsilonGreedy(eps>0) excluded as the property says), drawn "
        "n_jobs/backend, a history (training, arm changes, warm_start) in tie-prone data regimes; at every query point two deep copies of the bandit "
        "answer predict and predict_expectations under the same per-operation schedule seed and every row must "
        "satisfy predict == first arm attaining the maximum (rows with NaN expectations: predict in arms).")
EXPECTED_PROBES = ["probe.exact_tie_between_arms", "probe.nan_row", "sched.process_calls"]


def generate(rnd, tier, index=0):
    regime = rnd.choice(["exact", "exact", "float"])
    while True:
        cfg, spare = gen.gen_cfg(rnd, with_np=rnd.random() < 0.7, scale=True)
        if not (np_class(cfg) == "TreeBandit" and lp_class(cfg) == "EpsilonGreedy>0"):
            break
    cfg["n_jobs"] = rnd.choice([1, 1, 2, 3, -1])
    cfg["backend"] = rnd.choice([None, "threading", "multiprocessing"])
    d = rnd.randint(1, 3)
    rkind = "binary" if (regime == "exact" and rnd.random() < 0.6) else None
    if cfg["lp"][0] == "ThompsonSampling":
        rkind = "binary"
    ops = gen.gen_history(rnd, cfg, spare, d, regime, rnd.randint(3, 12), max_rows=10, rkind=rkind, warm=True,
                          sched=lambda r, op: kernel.Sched.draw(r) if op["op"] in ("predict", "expect") else None,
                          arm_changes=not (cfg["np"] and cfg["np"][1].get("no_nhood_prob_of_arm")))
    return {"cfg": cfg, "regime": regime, "ops": ops}


def execute(case, ctx):
    cfg = case["cfg"]
    P = Session(cfg)
    for step, op in enumerate(case["ops"]):
        kind = op["op"]
        ctx.ev("op", kind, step)
        ctx.fired("ops")
        if kind in ("predict", "expect") and P.fitted and (not P.ctxl or P.can_query(op.get("Q"))):
            A, B = P.clone(), P.clone()
            ra = A.apply({"op": "predict", "Q": op.get("Q")}, sched=op.get("sched"))
            rb = B.apply({"op": "expect", "Q": op.get("Q")}, sched=op.get("sched"))
            ctx.fired("oracle.comparisons")
            if ra[0] != "ok" or rb[0] != "ok":
                if ra[0] != rb[0]:
                    ctx.violate("status-differs", step, {"predict": ra, "expect": rb})
                    return
            else:
                m = len(op["Q"]) if op.get("Q") is not None else None
                preds, exps = as_list(ra[1], m), as_list(rb[1], m)
                if len(preds) != len(exps):
                    ctx.violate("lengths-differ", step, {"predict": len(preds), "expect": len(exps)})
                    return
                arms = list(P.mab.arms)
                for i, (p, e) in enumerate(zip(preds, exps)):
                    vals = list(e.values())
                    if any(isinstance(v, float) and math.isnan(v) for v in vals):
                        ctx.fired("probe.nan_row")
                        if p not in arms:
                            ctx.violate("nan-row-predict-not-an-arm", step, {"row": i, "predict": p})
                            return
                        continue
                    # "the first arm IN ARM-LIST ORDER": the order of the bandit's arm list, not the order of the keys of the
                    # returned dictionary (that they agree is C08's claim, not an assumption to build on here)
                    best = first_argmax({a: e[a] for a in arms} if set(e) == set(arms) else e)
                    if sum(1 for v in vals if v == e[best]) > 1:
                        ctx.fired("probe.exact_tie_between_arms")
                    if p != best:
                        sig = {}
                        if np_class(cfg) == "TreeBandit" and cfg["lp"][0] == "ThompsonSampling" and cfg["n_jobs"] != 1:
                            # workers draw the leaf samples from the bandit's shared generator (known finding of C05):
                            # under thread interleavings predict and predict_expectations see other draws per row
                            sig["kf2"] = "treebandit-shared-rng-schedule-dependent"
                        ctx.violate("predict-is-not-first-argmax", step, {"row": i, "predict": p, "expectations": e}, **sig)
                        return
        r = P.apply(op, sched=op.get("sched"))
        if r[0] == "ok" and kind in ("fit", "partial_fit"):
            ctx.fired("ops.train")
