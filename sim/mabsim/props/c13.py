"""C13 -- warm_start only initialises cold arms, from their nearest trained arm (RefWarm; F-DUP, F-RESTART).

All relations are evaluated on deep copies, so one history yields several checks:
  * trained and already-warm arms' per-arm state is unchanged by the call;
  * each changed arm was cold and now equals EXACTLY the state of a trained arm at minimal cosine distance (any minimiser
    is accepted) and that distance <= the documented threshold (quantile of the arms' nearest-neighbour distances);
  * warm set at q1 is a subset of the warm set at q2 for q1 <= q2;
  * repeating the identical call changes nothing (F-DUP), also across a restart (F-RESTART);
  * cold_arms == arms - observed - warm after every operation;
  * a warm_start that raises leaves the state unchanged.
"""
import math

import numpy as np
from scipy.spatial.distance import cdist

from .. import gen
from ..world import CONTEXT_FREE, LINEAR, Session, arm_state, diff, pview

ID = "C13"
LEVEL = "exploration"
QUICK_RUNS = 4000
RULE = ("Each run: a warm-start capable policy without neighbourhood policy, 2-7 arms, a history of fit / partial_fit / arm "
        "changes / refits / queries with warm_start calls whose feature dictionaries contain zero vectors and duplicates "
        "and whose quantiles include 0 and 1; every warm_start is delivered twice (F-DUP), sometimes with a restart in "
        "between, and compared with other quantiles on deep copies.")
EXPECTED_PROBES = ["fault.duplicate_warm_start", "fault.restart", "probe.arm_became_warm", "probe.zero_vector_features",
                   "probe.duplicate_features", "probe.warm_start_raised", "probe.partial_fit_after_warm_start",
                   "probe.tie_between_nearest_trained_arms"]
WS_LPS = ("EpsilonGreedy", "UCB1", "Softmax", "ThompsonSampling", "Popularity") + LINEAR
SELF = 999999


def generate(rnd, tier, index=0):
    regime = rnd.choice(["exact", "float"])
    lp = gen.gen_lp(rnd, names=WS_LPS)
    cfg, spare = gen.gen_cfg(rnd, lp=lp, with_np=False)
    d = rnd.randint(1, 3)
    ops = gen.gen_history(rnd, cfg, spare, d, regime, rnd.randint(4, 16), warm=True, refit=0.1, max_rows=8)
    # make cold arms likely: most training batches omit arms
    arms = list(cfg["arms"])
    n_ws = 0
    for op in ops:
        if op["op"] == "warm_start":
            n_ws += 1
            op["q2"] = rnd.choice([0.0, 0.3, 0.6, 1.0])
            op["restart_between"] = rnd.choice([None, None, "deepcopy", "p4"])
    if n_ws == 0:
        i = rnd.randint(1, len(ops))
        w = gen.gen_warm(rnd, arms)
        w["q2"] = rnd.choice([0.0, 0.5, 1.0])
        w["restart_between"] = None
        ops.insert(i, w)
    return {"cfg": cfg, "regime": regime, "ops": ops}


def _features(op, arms):
    feats = {a: list(f) for a, f in op["features"]}
    for a in arms:
        if a not in feats:
            feats[a] = list(op["default"])
    return {a: feats[a] for a in arms}


def _cos(u, v):
    dd = cdist(np.asarray([u], dtype=float), np.asarray([v], dtype=float), metric="cosine")[0][0]
    return SELF if np.isnan(dd) else float(dd)


def _threshold(feats, q):
    """Documented threshold: quantile q of every arm's distance to its nearest other arm (arms whose nearest distance is
    undefined, i.e. zero vectors / single arm, do not take part)."""
    closest = []
    for a in feats:
        ds = [_cos(feats[a], feats[b]) if a != b else SELF for b in feats]
        if min(ds) != SELF:
            closest.append(min(ds))
    if not closest:
        return None
    return float(np.quantile(closest, q=q))


def _status(mab):
    st = mab._imp.arm_to_status
    return ({a for a in mab.arms if st[a]["is_trained"]}, {a for a in mab.arms if st[a]["is_warm"]})


def execute(case, ctx):
    cfg = case["cfg"]
    P = Session(cfg)
    observed, warm = set(), set()          # model of the statuses
    since_warm = False
    for step, op in enumerate(case["ops"]):
        kind = op["op"]
        ctx.ev("op", kind, step)
        ctx.fired("ops")
        if kind == "warm_start":
            if not P.fitted and cfg["lp"][0] in LINEAR:
                continue
            if _warm(P, op, ctx, step, observed, warm) is False:
                return
            since_warm = True
        else:
            first = not P.fitted
            r = P.apply(op)
            if r[0] == "ok":
                if kind in ("fit", "partial_fit"):
                    ctx.fired("ops.train")
                    rows = P.valid_rows(op["rows"])
                    if kind == "fit" or first:
                        observed.clear()
                        warm.clear()
                    elif since_warm:
                        ctx.fired("probe.partial_fit_after_warm_start")
                    observed |= {x[0] for x in rows}
                elif kind == "remove_arm":
                    observed.discard(op["arm"])
                    warm.discard(op["arm"])
        ctx.fired("oracle.comparisons")
        want_cold = [a for a in P.mab.arms if a not in observed and a not in warm]
        if list(P.mab.cold_arms) != want_cold:
            ctx.violate("cold-arms", step, {"after": kind, "have": list(P.mab.cold_arms), "want": want_cold})
            return


def _warm(P, op, ctx, step, observed, warm):
    arms = list(P.mab.arms)
    feats = _features(op, arms)
    q = float(op["q"])
    vecs = list(feats.values())
    if any(not any(v) for v in vecs):
        ctx.fired("probe.zero_vector_features")
    if len({tuple(v) for v in vecs}) < len(vecs):
        ctx.fired("probe.duplicate_features")
    before = {a: arm_state(P.mab, a) for a in arms}
    pv_before = pview(P.mab)
    trained0, warm0 = _status(P.mab)
    B = P.clone()                     # for the monotonicity comparison at another quantile
    try:
        P.mab.warm_start({a: list(v) for a, v in feats.items()}, q)
    except Exception as e:   # noqa
        ctx.fired("probe.warm_start_raised")
        ctx.ev("warm_raised", type(e).__name__)
        ctx.fired("oracle.comparisons")
        d = diff(pv_before, pview(P.mab))
        if d:
            ctx.violate("raising-warm-start-changed-state", step, {"diff": d})
            return False
        return True
    ctx.fired("fault.history_step")
    after = {a: arm_state(P.mab, a) for a in arms}
    trained1, warm1 = _status(P.mab)
    thr = _threshold(feats, q)
    ctx.fired("oracle.comparisons")
    if trained1 != trained0:
        ctx.violate("trained-status-changed", step, {"before": sorted(map(str, trained0)), "after": sorted(map(str, trained1))})
        return False
    if not warm0 <= warm1:
        ctx.violate("warm-status-lost", step, None)
        return False
    newly = warm1 - warm0
    for a in arms:
        changed = diff(before[a], after[a]) is not None
        if a in trained0 or a in warm0:
            if changed:
                ctx.violate("trained-or-warm-arm-modified", step, {"arm": a, "diff": diff(before[a], after[a])})
                return False
            if a in newly:
                ctx.violate("non-cold-arm-marked-warm", step, {"arm": a})
                return False
            continue
        if a not in newly:
            if changed:
                ctx.violate("cold-arm-modified-without-warm-status", step, {"arm": a})
                return False
            continue
        # a was cold and is warm now: exact copy of a nearest trained arm within the threshold
        ctx.fired("probe.arm_became_warm")
        ds = {t: _cos(feats[a], feats[t]) for t in arms if t in trained0}
        if not ds:
            ctx.violate("warm-without-trained-source", step, {"arm": a})
            return False
        dmin = min(ds.values())
        minimisers = [t for t, v in ds.items() if v <= dmin + 1e-12]
        if len(minimisers) > 1:
            ctx.fired("probe.tie_between_nearest_trained_arms")
        if thr is None or dmin > thr + 1e-12:
            ctx.violate("warm-beyond-threshold", step, {"arm": a, "distance": dmin, "threshold": thr, "q": q})
            return False
        if not any(diff(before[t], after[a]) is None for t in minimisers):
            src = P.mab._imp.arm_to_status[a]["warm_started_by"]
            ctx.violate("warm-state-is-not-a-copy-of-nearest-trained-arm", step,
                        {"arm": a, "nearest": minimisers, "recorded_source": src,
                         "source_is_trained": src in trained0})
            return False
    warm |= newly
    # F-DUP (optionally across a restart): the identical call changes nothing
    pv1 = pview(P.mab)
    if op.get("restart_between"):
        P2 = P.clone(op["restart_between"])
        P.mab = P2.mab
        ctx.fired("fault.restart")
    try:
        P.mab.warm_start({a: list(v) for a, v in feats.items()}, q)
        ctx.fired("fault.duplicate_warm_start")
        ctx.ev("fault", "dup_warm_start")
    except Exception:
        pass
    ctx.fired("oracle.comparisons")
    d = diff(pv1, pview(P.mab))
    if d:
        ctx.violate("warm-start-not-idempotent", step, {"diff": d})
        return False
    # monotonicity in the quantile, from the same pre-call state
    q2 = float(op.get("q2", q))
    try:
        B.mab.warm_start({a: list(v) for a, v in feats.items()}, q2)
        _, warm_b = _status(B.mab)
        # the copy's call has its OWN quantile: its newly warm arms must respect the threshold at q2 (a threshold
        # remembered from the primary's call with the same features would show here)
        thr2 = _threshold(feats, q2)
        for a in warm_b - warm0:
            ds = [_cos(feats[a], feats[t]) for t in arms if t in trained0]
            ctx.fired("oracle.comparisons")
            if ds and (thr2 is None or min(ds) > thr2 + 1e-12):
                ctx.violate("warm-beyond-threshold", step, {"arm": a, "distance": min(ds), "threshold": thr2, "q": q2,
                                                            "call": "second call on a copy with another quantile"})
                return False
        lo, hi = (warm_b, warm1) if q2 <= q else (warm1, warm_b)
        ctx.fired("oracle.comparisons")
        if not lo <= hi:
            ctx.violate("warm-set-not-monotone-in-quantile", step, {"q": q, "q2": q2, "warm_q": sorted(map(str, warm1)),
                                                                    "warm_q2": sorted(map(str, warm_b))})
            return False
    except Exception:
        pass
    return True
