"""C08 -- outputs always range over exactly the current arms, one result per context."""
import copy

from .. import gen, kernel
from ..oracles import check_result_shape

from ..world import LINEAR, Session, diff, is_contextual, randomised, tol_for

ID = "C08"
LEVEL = "exploration"
QUICK_RUNS = 3200
RULE = ("Each run: drawn policy combination, arm label type and n_jobs/backend; a history interleaving add_arm / "
        "remove_arm / fit / partial_fit / warm_start (arm changes before the first fit included) with restarts "
        "(pickle / deepcopy) mixed in; after EVERY step the bandit is queried (m = 1, m > 1, context-free bandits with "
        "and without contexts) under a seeded schedule with random partitions and the arm-set / shape invariants are "
        "checked against a trivial model of the arm list.")
EXPECTED_PROBES = ["fault.sibling_arm_change", "probe.arm_change_before_first_fit", "probe.query_right_after_add", "probe.query_right_after_remove",
                   "fault.restart", "fault.partition_random"]


def generate(rnd, tier, index=0):
    regime = rnd.choice(["exact", "float"])
    cfg, spare = gen.gen_cfg(rnd, with_np=rnd.random() < 0.7, allow_probs=False, scale=True)
    cfg["n_jobs"] = rnd.choice([1, 2, 3, 5, -1, -2, 64])
    cfg["backend"] = rnd.choice([None, "threading", "loky", "multiprocessing"])
    ctxl = is_contextual(cfg)
    d = rnd.randint(1, 4)
    ops = gen.gen_history(rnd, cfg, spare, d, regime, rnd.randint(4, 16), warm=True, refit=0.12, queries=False,
                          max_rows=14)
    # arm changes before the first fit
    pre = []
    arms = list(cfg["arms"])
    sp = [a for a in spare]
    if rnd.random() < 0.4:
        for _ in range(rnd.randint(1, 2)):
            if rnd.random() < 0.6 and sp:
                a = sp.pop(0)
                pre.append({"op": "add_arm", "arm": a})
            elif len(arms) > 2:
                pre.append({"op": "remove_arm", "arm": arms[rnd.randrange(len(arms))]})
    ops = pre + ops
    for op in ops:
        if rnd.random() < 0.15:
            op["restart"] = rnd.choice(["deepcopy", "p2", "p3", "p4", "p5"])
        m = rnd.choice([1, 1, 2, 3, 7])
        if rnd.random() < 0.3:
            continue        # no query after this step: several changes in a row before the next query (stale caches)
        op["probe"] = {"Q": gen.gen_Q(rnd, m, d if ctxl else rnd.randint(1, 2), regime) if (ctxl or rnd.random() < 0.5)
                       else None, "sched": kernel.Sched.draw(rnd)}
    sibling = rnd.random() < 0.5
    if sibling:
        # a second bandit built from the SAME arms list object changes its own arms at drawn points
        extra = {int: [101, 102, 103], str: ["zz", "yyy", "x"], float: [101.5, 102.5, 103.5]}[type(cfg["arms"][0])]
        for i in sorted((rnd.randrange(len(ops) + 1) for _ in range(rnd.randint(1, 3))), reverse=True):
            ops.insert(i, {"op": "sibling", "do": rnd.choice(["add", "add", "remove"]), "arm": rnd.choice(extra),
                           "probe": {"Q": gen.gen_Q(rnd, 2, d if ctxl else 1, regime) if ctxl else None,
                                     "sched": kernel.Sched.draw(rnd)}})
    return {"cfg": cfg, "regime": regime, "ops": ops, "sibling": sibling}


def execute(case, ctx):
    from mabwiser.mab import MAB
    from ..world import make_lp, make_np
    cfg = case["cfg"]
    arms_obj = list(cfg["arms"])

    def build():
        return MAB(arms_obj, make_lp(cfg["lp"]), make_np(cfg["np"]), seed=cfg["seed"], n_jobs=cfg["n_jobs"],
                   backend=cfg["backend"])
    P = Session(cfg, mab=build())
    S = build() if case.get("sibling") else None
    model_arms = list(cfg["arms"])
    for step, op in enumerate(case["ops"]):
        kind = op["op"]
        ctx.ev("op", kind, step)
        ctx.fired("ops")
        if kind in ("add_arm", "remove_arm") and not P.fitted:
            ctx.fired("probe.arm_change_before_first_fit")
        if kind == "sibling":
            if S is not None:
                try:
                    if op["do"] == "add" and op["arm"] not in S.arms:
                        S.add_arm(op["arm"])
                        ctx.fired("fault.sibling_arm_change")
                    elif op["do"] == "remove" and len(S.arms) > 2:
                        S.remove_arm(S.arms[-1])
                        ctx.fired("fault.sibling_arm_change")
                except Exception:
                    pass
            r = ("ok", None)
        else:
            r = P.apply(op)
        if r[0] == "ok":
            if kind == "add_arm":
                model_arms.append(op["arm"])
            elif kind == "remove_arm":
                model_arms.remove(op["arm"])
            elif kind in ("fit", "partial_fit"):
                ctx.fired("ops.train")
        elif r[0] == "exc":
            # C08 makes no claim about a training / warm-start call that raises (e.g. warm_start with all-zero
            # feature vectors has no finite cosine distance); the invariants below still have to hold afterwards.
            ctx.fired("probe.non_query_call_raised." + kind)
            ctx.ev("raised", kind, r[1])
        if op.get("restart"):
            P = P.clone(op["restart"])
            ctx.fired("fault.restart")
        ctx.fired("oracle.comparisons")
        if list(P.mab.arms) != model_arms or list(P.mab._imp.arms) != model_arms:
            ctx.violate("arm-list-wrong", step, {"mab": list(P.mab.arms), "imp": list(P.mab._imp.arms),
                                                 "model": model_arms})
            return
        pr = op.get("probe")
        if not pr or not P.fitted:
            continue
        Q = pr["Q"]
        if P.ctxl and not P.can_query(Q):
            continue
        m = len(Q) if Q is not None else None
        for qk in ("predict", "expect"):
            rq = P.apply({"op": qk, "Q": Q}, sched=pr.get("sched"))
            ctx.fired("oracle.comparisons")
            if rq[0] != "ok":
                ctx.violate("query-raised", step, {"after": kind, "query": qk, "res": rq})
                return
            bad = check_result_shape(rq[1], model_arms, m, qk == "predict")
            if bad:
                ctx.violate("result-shape", step, {"after": kind, "query": qk, "what": bad})
                return
            if qk == "expect" and P.ctxl and m and m > 1 and not randomised(cfg):
                # "a list of m results IN ROW ORDER": for policies whose expectations are deterministic the i-th result
                # must be the answer to the i-th row asked alone (on a copy, so the primary's streams do not move)
                ctx.fired("probe.row_order_checked")
                for i in range(m):
                    alone = Session(cfg, mab=copy.deepcopy(P.mab)).mab.predict_expectations([list(Q[i])])
                    dd = diff(alone, rq[1][i], rtol=tol_for(cfg, case["regime"]) or 0.0,
                              atol=1e-9 if cfg["lp"][0] in LINEAR else 0.0)
                    ctx.fired("oracle.comparisons")
                    if dd:
                        ctx.violate("row-order", step, {"after": kind, "row": i, "diff": dd})
                        return
        if r[0] == "ok" and kind == "add_arm":
            ctx.fired("probe.query_right_after_add")
        if r[0] == "ok" and kind == "remove_arm":
            ctx.fired("probe.query_right_after_remove")
