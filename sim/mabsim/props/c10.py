"""C10 -- prediction is read-only (queried primary vs never-queried replica; F-SCHED, F-PART, F-WORKER on queries)."""
from .. import gen, kernel
from ..twin import observe_same, same_params
from ..world import Session, is_contextual, sync_streams

ID = "C10"
LEVEL = "exploration"
QUICK_RUNS = 3200
RULE = ("Each run: drawn policy combination with drawn n_jobs/backend, a training history, a deep copy, then a drawn "
        "number of queries of drawn sizes on the primary only -- executed under seeded thread/process schedules, "
        "random partitions and injected worker failures -- then all stream positions are copied to the unqueried "
        "copy and parameter views plus a common continuation (partial_fit, arm changes, warm_start, queries) must "
        "coincide exactly.")
EXPECTED_PROBES = ["fault.worker_failure", "probe.query_raised_by_injected_failure", "sched.yields",
                   "probe.process_batch_shared_copy"]


def generate(rnd, tier, index=0):
    regime = rnd.choice(["exact", "float"])
    # explicit empty-neighbourhood weights are allowed together with arm changes: a query that meets weights and arms
    # of different lengths raises on queried and unqueried bandit alike, which is fine for this property
    cfg, spare = gen.gen_cfg(rnd, with_np=rnd.random() < 0.75, allow_probs=True, scale=True)
    cfg["n_jobs"] = rnd.choice([1, 2, 3, 5, -1])
    cfg["backend"] = rnd.choice([None, "threading", "loky"])
    ctxl = is_contextual(cfg)
    d = rnd.randint(1, 4)
    hist = gen.gen_history(rnd, cfg, spare, d, regime, rnd.randint(1, 6), queries=False, warm=True, max_rows=16)
    # arms / spare after the history
    arms = list(cfg["arms"])
    for op in hist:
        if op["op"] == "add_arm":
            arms.append(op["arm"])
        if op["op"] == "remove_arm":
            arms.remove(op["arm"])
    stored = [r[2] for op in hist if op["op"] in ("fit", "partial_fit") for r in op["rows"]] if ctxl else None
    queries = []
    for _ in range(rnd.randint(1, 5)):
        Q = gen.gen_Q(rnd, rnd.randint(1, 7), d, regime, stored) if ctxl else rnd.choice(
            [None, gen.gen_Q(rnd, rnd.randint(1, 4), 2, regime)])
        q = {"op": rnd.choice(["predict", "expect"]), "Q": Q,
             "sched": kernel.Sched.draw(rnd, allow_fail=rnd.random() < 0.3, n_tasks_hint=3)}
        queries.append(q)
    cfg2 = dict(cfg, arms=arms)
    spare2 = [a for a in spare if a not in arms]
    cont = gen.gen_history(rnd, cfg2, spare2, d, regime, rnd.randint(2, 6), warm=True, max_rows=10, refit=0.05)
    cont[0]["op"] = "partial_fit"
    if rnd.random() < 0.5:
        # "every later sequence of calls": the continuation starts by asking again about contexts the primary has already
        # been asked about (the other kind of query), before any training call
        q = rnd.choice(queries)
        cont.insert(0, {"op": "expect" if q["op"] == "predict" else "predict", "Q": q["Q"]})
        if rnd.random() < 0.5:
            cont.insert(1, {"op": q["op"], "Q": q["Q"]})
    return {"cfg": cfg, "regime": regime, "ops": hist, "queries": queries, "cont": cont}


def shrink_paths(case):
    return [("cont",), ("queries",), ("ops",)]


KEEP_MIN = {"queries": 1}


def execute(case, ctx):
    cfg = case["cfg"]
    P = Session(cfg)
    for step, op in enumerate(case["ops"]):
        ctx.ev("op", op["op"], step)
        ctx.fired("ops")
        r = P.apply(op)
        if r[0] == "ok" and op["op"] in ("fit", "partial_fit"):
            ctx.fired("ops.train")
    R = P.clone("deepcopy")
    n0 = len(case["ops"])
    for i, q in enumerate(case["queries"]):
        ctx.ev("op", "query-" + q["op"], n0 + i)
        ctx.fired("ops")
        r = P.apply(q, sched=q.get("sched"))
        if r[0] == "exc":
            if ctx.stats.get("fault.worker_failure", 0):
                ctx.fired("probe.query_raised_by_injected_failure")
            ctx.ev("query_exc", r[1])
        elif r[0] == "ok":
            ctx.fired("probe.queries_answered")
    if not sync_streams(P.mab, R.mab):
        ctx.violate("stream-aliasing-changed-by-queries", n0, None)
        return
    d = same_params(P, R, ctx)
    if d:
        ctx.violate("query-changed-model", n0 + len(case["queries"]), {"diff": d})
        return
    n1 = n0 + len(case["queries"])
    for j, op in enumerate(case["cont"]):
        step = n1 + j
        kind = op["op"]
        ctx.ev("op", "cont-" + kind, step)
        ctx.fired("ops")
        if kind in ("predict", "expect"):
            c = observe_same(P, R, [op], ctx)
            if c:
                ctx.violate("continuation-%s-differ" % c[0], step, {"diff": c[1], "op": kind})
                return
        else:
            rp = P.apply(op)
            rr = R.apply(op)
            if rp[0] == "ok" and kind in ("fit", "partial_fit"):
                ctx.fired("ops.train")
            if rp[0] != rr[0] or (rp[0] == "exc" and rp[1] != rr[1]):
                ctx.violate("continuation-status-differs", step, {"queried": rp, "unqueried": rr, "op": kind})
                return
            d = same_params(P, R, ctx)
            if d:
                ctx.violate("continuation-model-differs", step, {"diff": d, "op": kind})
                return
