"""C05 -- results do not depend on n_jobs, backend or scheduling.

Primary runs with n_jobs=1; the replica runs the same operations with a drawn (n_jobs, backend, cores) under
SimParallel: thread interleavings (F-SCHED), process batching onto pickled copies, arbitrary contiguous partitions
(F-PART). Oracles: (1) every output equals the primary's; (2) parameter views equal after every training
operation; (3) decomposition: _predict_contexts on the whole batch == concatenation of per-row calls on fresh copies
with the same seeds; (4) monitor: the real _partition_contexts always returns an ordered exact cover.
"""
import copy

import numpy as np

from .. import gen, kernel, seams
from ..oracles import compare_results
from ..world import Session, diff, pview

ID = "C05"
LEVEL = "exploration"
QUICK_RUNS = 3200
RULE = ("Each run: swarm-drawn policy combination, data regime and history; replica with drawn n_jobs/backend/"
        "cores executes every operation under a per-operation seeded schedule (thread completion order, "
        "LINE/INSTRUCTION-level yields, process batch grouping and order, random contiguous partitions).")
EXPECTED_PROBES = ["sched.yields", "probe.process_batch_shared_copy", "fault.partition_differs_from_library",
                   "probe.decomposition_checked", "sched.out_of_order_completion"]


def generate(rnd, tier, index=0):
    if index == 0:
        return {"cfg": None, "sweep": True, "ops": []}
    regime = rnd.choice(["exact", "float"])
    cfg, spare = gen.gen_cfg(rnd, with_np=rnd.random() < 0.8, scale=True)
    d = rnd.randint(1, 4)
    if regime == "float" and cfg["np"] and cfg["np"][0] in ("Radius", "KNearest") and rnd.random() < 0.5:
        # metrics whose parameters scipy derives from the rows handed to ONE cdist call (seuclidean, mahalanobis) and a few
        # other supported ones: the distance of a query row must not depend on which other rows share its worker chunk
        cfg["np"][1]["metric"] = rnd.choice(["seuclidean", "mahalanobis", "cosine", "canberra", "braycurtis", "correlation"]
                                            if d >= 2 else ["seuclidean", "canberra"])
        if cfg["np"][0] == "Radius":
            cfg["np"][1]["radius"] = rnd.choice([0.2, 0.5, 1.0, 2.0, 4.0])
    par = {"n_jobs": rnd.choice([2, 3, 5, -1, -2, 64]),
           "backend": rnd.choice([None, "threading", "loky", "multiprocessing"])}

    def sched(r, op):
        return kernel.Sched.draw(r)
    ops = gen.gen_history(rnd, cfg, spare, d, regime, rnd.randint(4, 14), sched=sched, max_rows=20)
    for op in ops:
        if op["op"] in ("predict", "expect") and rnd.random() < 0.5:
            op["decomp"] = True
    return {"cfg": cfg, "regime": regime, "par": par, "ops": ops}


def _sweep(ctx):
    """Complete enumeration of the (pure) real partition function on a grid -- auxiliary to the schedule search."""
    from mabwiser.greedy import _EpsilonGreedy
    from mabwiser.utils import create_rng
    real = seams.real_partition()
    n_checked = 0
    for cores in (1, 2, 3, 16):
        ctx.sched = kernel.Sched(1, cores=cores)
        for n_jobs in list(range(-3, 0)) + list(range(1, 67)):
            imp = _EpsilonGreedy(create_rng(1), [1, 2], n_jobs, None)
            for n in range(1, 65):
                res = real(imp, n)
                seams._check_cover(n, res, ctx)
                n_checked += 1
    ctx.sched = None
    ctx.fired("oracle.comparisons", n_checked)
    ctx.fired("probe.partition_sweep_points", n_checked)


def execute(case, ctx):
    if case.get("sweep"):
        _sweep(ctx)
        return
    cfg = case["cfg"]
    P = Session(cfg, n_jobs=1, backend=None)
    R = Session(cfg, n_jobs=case["par"]["n_jobs"], backend=case["par"]["backend"])
    diverged = False     # after a VALUE divergence the random streams differ: only structure stays comparable
    for step, op in enumerate(case["ops"]):
        kind = op["op"]
        ctx.ev("op", kind, step)
        ctx.fired("ops")
        decomp = None
        if (not diverged and op.get("decomp") and kind in ("predict", "expect") and cfg.get("np")
                and P.can_query(op.get("Q"))):
            decomp = _decomposition(P, op, ctx, step)
        rp = P.apply(op)
        rr = R.apply(op, sched=op.get("sched"))
        if rp[0] == "skip" and rr[0] == "skip":
            continue
        ctx.ev("out", step, rp[1] if rp[0] == "ok" else rp, rr[1] if rr[0] == "ok" else rr)
        ctx.fired("oracle.comparisons")
        c = compare_results(rp, rr)
        if c and (c[0] == "shape" or not diverged):
            ctx.violate("output-%s-differ" % c[0], step, {"op": kind, "diff": c[1]})
            if c[0] == "shape":
                return
            diverged = True
        if decomp:
            ctx.violate(decomp[0], step, decomp[1])
            if "shape" in decomp[0]:
                return
        if kind in ("fit", "partial_fit", "add_arm", "remove_arm"):
            if kind in ("fit", "partial_fit"):
                ctx.fired("ops.train")
            dd = diff(pview(P.mab), pview(R.mab))
            ctx.fired("oracle.comparisons")
            if dd:
                ctx.violate("model-differs", step, {"op": kind, "diff": dd})
                return


def _decomposition(P, op, ctx, step):
    """each row's result depends only on (model, row, row seed)"""
    Q = np.asarray(op["Q"])
    flag = op["op"] == "predict"
    seeds = np.arange(len(Q)) * 7919 + 17
    try:
        whole = copy.deepcopy(P.mab)._imp._predict_contexts(Q, flag, seeds, 0)
    except Exception:
        return None     # the query itself fails for every schedule alike: nothing to decompose
    per_row = []
    for i in range(len(Q)):
        try:
            per_row += copy.deepcopy(P.mab)._imp._predict_contexts(Q[i:i + 1], flag, seeds[i:i + 1], i)
        except Exception as e:   # noqa: the whole batch was answered, the same row alone is not
            ctx.fired("probe.decomposition_checked")
            return ("decomposition-shape-differ", {"diff": "row %d alone raises %s, inside the whole batch it is answered"
                                                   % (i, type(e).__name__)})
    ctx.fired("probe.decomposition_checked")
    ctx.fired("oracle.comparisons")
    c = compare_results(("ok", list(whole)), ("ok", list(per_row)))
    if c:
        return ("decomposition-%s-differ" % c[0], {"diff": c[1]})
    return None
