"""mabsim kernel: seeds, event log, digests, canonical values.

One integer decides everything: every choice made while *generating* a case comes from
``random.Random(run_seed)``; every choice made while *executing* an operation comes from that operation's
own ``sched`` record (written out in the case), so execution is a pure function of (case, code).
Logging never draws random numbers and never reads a clock.
"""
import hashlib
import json
import math
import random
from collections import Counter

import numpy as np


class HarnessError(Exception):
    """The simulator itself misbehaved (never a verdict about the property)."""


def H(*parts) -> int:
    """Stable 63-bit hash of the parts (independent of PYTHONHASHSEED)."""
    s = "\x1f".join(str(p) for p in parts).encode()
    return int.from_bytes(hashlib.sha256(s).digest()[:8], "big") >> 1


def canon(x):
    """Canonical JSON-able form: floats as hex, numpy scalars/arrays unwrapped, dict keys tagged by type."""
    if x is None or isinstance(x, (bool, str)):
        return x
    if isinstance(x, (np.bool_,)):
        return bool(x)
    if isinstance(x, (int, np.integer)):
        return int(x)
    if isinstance(x, (float, np.floating)):
        x = float(x)
        if math.isnan(x):
            return "nan"
        return x.hex()
    if isinstance(x, np.ndarray):
        if x.dtype == object:
            return [canon(v) for v in x.tolist()]
        return {"nd": list(x.shape), "dt": x.dtype.kind, "v": [canon(v) for v in x.ravel().tolist()]}
    if isinstance(x, dict):
        return {"d": [[canon(k), canon(v)] for k, v in x.items()]}
    if isinstance(x, (list, tuple)):
        return [canon(v) for v in x]
    if isinstance(x, (set, frozenset)):
        return {"set": sorted((canon(v) for v in x), key=lambda v: json.dumps(v, sort_keys=True))}
    if isinstance(x, BaseException):
        return {"exc": type(x).__name__}
    return {"repr": type(x).__name__}


class Ctx:
    """Per-run context: event log, counters (faults fired, probes), current operation schedule."""

    def __init__(self, record=True):
        self.log = []
        self.stats = Counter()
        self.sched = None          # Sched of the operation being executed (None => canonical schedule)
        self.record = record
        self.violations = []       # filled by oracles
        self.parallel_calls = 0    # SimParallel calls inside the current operation
        self.monitor_events = 0

    def ev(self, kind, *data):
        if self.record:
            self.log.append([kind] + [canon(d) for d in data])

    def fired(self, name, n=1):
        self.stats[name] += n

    def digest(self):
        return hashlib.sha256(json.dumps(self.log, sort_keys=True).encode()).hexdigest()

    def violate(self, oracle, step, detail=None, **sig):
        """Record an oracle failure. `sig` keys take part in the violation class / known-finding signature."""
        v = {"oracle": oracle, "step": step, "sig": {k: str(val) for k, val in sig.items()},
             "detail": canon(detail)}
        self.violations.append(v)
        self.ev("VIOLATION", oracle, step, v["sig"])


# The context of the run being executed in this process (simulated runs never overlap inside a process).
CUR = Ctx(record=False)


def set_ctx(ctx):
    global CUR
    CUR = ctx
    return ctx


def cur():
    return CUR


class Sched:
    """Execution-time decisions of ONE operation, all derived from its own seed.

    p_yield   probability that a shared-memory worker hands the baton back at a monitoring event
    level     'LINE' or 'INSTRUCTION' monitoring events
    cores     simulated machine size (mp.cpu_count())
    partition 'real' (the library's own), or 'random' (any ordered exact cover with non-empty chunks)
    fail      None or [parallel_call_no, task_index] -> that task raises MemoryError (F-WORKER)
    """

    def __init__(self, seed=0, p_yield=0.0, level="LINE", cores=16, partition="real", fail=None,
                 canonical=False):
        self.seed = seed
        self.rnd = random.Random(seed)
        self.p_yield = p_yield
        self.level = level
        self.cores = cores
        self.partition = partition
        self.fail = fail
        self.canonical = canonical or seed == 0

    @staticmethod
    def from_json(j):
        if j is None:
            return Sched(0)
        return Sched(j.get("seed", 0), j.get("p_yield", 0.0), j.get("level", "LINE"), j.get("cores", 16),
                     j.get("partition", "real"), j.get("fail"))

    @staticmethod
    def draw(rnd, allow_fail=False, n_tasks_hint=4):
        """Draw a schedule record (JSON) from the generator PRNG."""
        j = {"seed": rnd.randrange(1, 2 ** 31),
             "p_yield": rnd.choice([0.0, 0.0, 0.002, 0.02, 0.2]),
             "level": rnd.choice(["LINE", "LINE", "INSTRUCTION"]),
             "cores": rnd.choice([1, 2, 3, 4, 8, 16, 64]),
             "partition": rnd.choice(["real", "random", "random"])}
        if allow_fail and rnd.random() < 0.5:
            j["fail"] = [0, rnd.randrange(0, n_tasks_hint)]
        return j
