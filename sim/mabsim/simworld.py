"""Simulator world shared by C15 and C16: one mabwiser Simulator owning several bandits, its chunk budget behind a seam
(F-KNOB), SimParallel inside mabwiser.simulator, and an independent reference driver over the public API."""
import copy
import logging
import math

import numpy as np

from . import gen, kernel
from .world import CLUSTER_LPS, CONTEXT_FREE, LINEAR, TREE_LPS, is_contextual, make_mab, randomised


def generate(rnd, tier, index=0):
    regime = rnd.choice(["exact", "exact", "float"])
    kind, arms, spare = gen.gen_arms(rnd, kinds=("int", "str", "int", "str", "int", "str", "float"), hi=4)
    n_b = rnd.randint(1, 4)
    d = rnd.randint(1, 3)
    cfgs = []
    for b in range(n_b):
        lp = gen.gen_lp(rnd)
        np_ = gen.gen_np(rnd, lp[0], len(arms), allow_probs=True) if rnd.random() < 0.7 else None
        if np_ and np_[0] == "KNearest":
            np_[1]["k"] = rnd.randint(1, 3)
        if np_ and np_[0] == "Clusters":
            np_[1]["n_clusters"] = 2
        cfgs.append({"arms": list(arms), "lp": lp, "np": np_, "seed": rnd.randrange(2 ** 20),
                     "n_jobs": rnd.choice([1, 1, 2, 3, -1]), "backend": rnd.choice([None, None, "threading"])})
    # neighbourhood bandits with different metrics together (shared distance cache); in the float regime also metrics
    # whose parameters scipy derives from the data handed to cdist (seuclidean, mahalanobis) and other supported ones
    if rnd.random() < 0.5:
        pool = list(gen.METRICS_EXACT)
        if regime == "float":
            pool += ["seuclidean", "cosine", "canberra", "braycurtis", "correlation", "minkowski"] + (["mahalanobis"] if d >= 2 else [])
        for m, c in zip(rnd.sample(pool, min(len(cfgs), 4)), cfgs):
            if c["np"] and c["np"][0] in ("Radius", "KNearest"):
                c["np"][1]["metric"] = m
                if m in ("cosine", "correlation", "braycurtis", "canberra"):
                    c["np"][1]["radius"] = rnd.choice([0.05, 0.2, 0.5, 1.0]) if c["np"][0] == "Radius" else None
                    if c["np"][0] != "Radius":
                        c["np"][1].pop("radius")
    any_ts = any(c["lp"][0] == "ThompsonSampling" for c in cfgs)
    any_ctx = any(is_contextual(c) for c in cfgs)
    n = rnd.choice([rnd.randint(12, 48), 5 * rnd.randint(3, 10), 10 * rnd.randint(2, 6)])
    rk = "binary" if any_ts else ("nonneg" if regime == "exact" else "nonneg_real")
    if any_ts and rnd.random() < 0.5:
        # Thompson Sampling bandits with a binarizer inside the Simulator (raw rewards for the statistics, converted
        # rewards for the policy); every TS bandit of the run needs one then, because the rewards are no longer binary
        for c in cfgs:
            if c["lp"][0] == "ThompsonSampling":
                c["lp"][1]["binarizer"] = rnd.choice(["gt10", "arm_thr", "lt_arm", "ge5_int"])
        rk = "anyint"
    omit = gen.some_omitted(rnd, arms) if rnd.random() < 0.3 else None
    rows = gen.gen_rows(rnd, arms, n, d, regime, rk, any_ctx, omit=omit)
    if omit and rnd.random() < 0.7:         # an arm that occurs only at the end (absent from an ordered train set)
        a = sorted(omit, key=str)[0]
        rows[-1][0] = a
        rows[-2][0] = a
    # includes fractions for which n*(1-test_size) and n - n*test_size round differently in binary floating point
    test_size = rnd.choice([0.1, 0.2, 0.25, 0.3, 0.4, 0.5, 0.6, 0.7, 0.75, 0.8, 0.9])
    n_test = math.ceil(n * test_size)
    online = rnd.random() < 0.5
    batch = rnd.randint(1, n_test) if online else 0
    knob = rnd.randint(1, n_test) if rnd.random() < 0.5 else None
    return {"cfg": cfgs[0], "cfgs": cfgs, "regime": regime, "rows": rows, "test_size": test_size,
            "is_ordered": rnd.random() < 0.5, "batch_size": batch, "is_quick": rnd.random() < 0.4,
            "seed": rnd.randrange(2 ** 20), "knob": knob, "sched": kernel.Sched.draw(rnd), "ops": [],
            # how the logged data is handed to the Simulator (it converts with MAB._convert_array / _convert_matrix)
            "sim_container": rnd.choice(["list", "list", "ndarray", "ndarray_F", "series_frame", "ndarray_float"])}


def shrink_paths(case):
    return [("cfgs",)]


KEEP_MIN = {"cfgs": 1}


def simplify(case, fails, budget):
    """Property specific simplifications: drop the knob, the schedule, go offline, shrink the data from the front."""
    for change in ({"knob": None}, {"sched": {"seed": 0}}, {"is_quick": True}):
        cand = copy.deepcopy(case)
        cand.update(change)
        if budget.take() and fails(cand):
            case = cand
    while len(case["rows"]) > 8 and budget.left > 0:
        cand = copy.deepcopy(case)
        cand["rows"] = cand["rows"][2:]
        if cand["batch_size"]:
            cand["batch_size"] = max(1, min(cand["batch_size"], math.ceil(len(cand["rows"]) * cand["test_size"])))
        if budget.take() and fails(cand):
            case = cand
        else:
            break
    return case


def split_indices(n, test_size, is_ordered, seed):
    """The documented split, computed independently of the Simulator instance."""
    if is_ordered:
        train_size = int(n * (1 - test_size))
        return list(range(train_size)), list(range(train_size, n))
    from sklearn.model_selection import train_test_split
    tr, te = train_test_split(list(range(n)), test_size=test_size, random_state=seed)
    return list(tr), list(te)


class SimRun:
    pass


def run_simulator(case, ctx):
    """Build the bandits, run the real Simulator under the seams, return everything the oracles need."""
    from mabwiser.simulator import Simulator
    cfgs = case["cfgs"]
    rows = case["rows"]
    n = len(rows)
    any_ctx = any(is_contextual(c) for c in cfgs)
    dec = [r[0] for r in rows]
    rew = [r[1] for r in rows]
    ctxs = [r[2] for r in rows] if any_ctx else None
    bandits = [("b%d" % i, make_mab(c)) for i, c in enumerate(cfgs)]
    originals = [(name, copy.deepcopy(m)) for name, m in bandits]
    out = SimRun()
    out.dec, out.rew, out.ctxs, out.n = dec, rew, ctxs, n
    out.originals = originals
    out.names = [nm for nm, _ in bandits]
    root = logging.getLogger()
    before = list(root.handlers)
    batch = case["batch_size"]
    n_test = math.ceil(n * case["test_size"])
    if batch:
        batch = max(1, min(batch, n_test))
    out.batch = batch
    try:
        from .world import _mat, _vec
        cont = case.get("sim_container", "list")
        ctx.fired("probe.sim_container." + cont)
        sim = Simulator(bandits, _vec(dec, cont, False), _vec(rew, cont, True), _mat(ctxs, cont) if ctxs is not None else None,
                        test_size=case["test_size"], is_ordered=case["is_ordered"],
                        batch_size=batch, seed=case["seed"], is_quick=case["is_quick"])
    finally:
        for h in list(root.handlers):
            if h not in before:
                root.removeHandler(h)
    out.sim = sim
    knob = case.get("knob")
    real_split = sim._run_train_test_split

    def split_with_knob():
        res = real_split()
        out.chunk_default = sim._chunk_size
        if knob is not None:
            sim._chunk_size = max(1, min(int(knob), len(res[3])))       # F-KNOB: the 1 GB budget, scaled down
            ctx.fired("knob.chunk_budget_set")
            if sim._chunk_size < len(res[3]):
                ctx.fired("knob.multi_chunk")
            if batch and sim._chunk_size < batch:
                ctx.fired("probe.chunk_budget_below_batch")
            ctx.ev("knob", sim._chunk_size)
        out.chunk = sim._chunk_size
        return res
    sim._run_train_test_split = split_with_knob
    ctx.sched = kernel.Sched.from_json(case.get("sched"))
    ctx.parallel_calls = 0
    out.exc = None
    try:
        sim.run()
    except kernel.HarnessError:
        raise
    except Exception as e:   # noqa
        out.exc = e
    finally:
        ctx.sched = None
    ctx.fired("ops")
    ctx.fired("ops.train")
    ctx.ev("op", "simulate", len(cfgs), bool(batch), case["is_ordered"])
    return out


# --------------------------------------------------------------------------------------------------------------
# reference driver over the public API (C15)
# --------------------------------------------------------------------------------------------------------------

def api_reference(run, case, which, variant_expect, chunked):
    """Drive a deep copy of the ORIGINAL bandit `which` through MAB.fit / predict / predict_expectations / partial_fit.

    offline: fit(train); predict(test) [one call, or one call per chunk when `chunked`]
    online : per batch: predict, [predict_expectations if variant_expect], partial_fit
    Returns (predictions, expectations or None)."""
    name, orig = run.originals[which]
    mab = copy.deepcopy(orig)
    tr, te = split_indices(run.n, case["test_size"], case["is_ordered"], case["seed"])
    dec, rew, ctxs = np.asarray(run.dec), np.asarray(run.rew), (np.asarray(run.ctxs) if run.ctxs is not None else None)
    ctxl = mab.is_contextual
    if ctxl:
        mab.fit(dec[tr], rew[tr], ctxs[tr])
    else:
        mab.fit(dec[tr], rew[tr])
    preds, exps = [], []

    def predict_block(idx):
        if ctxl:
            p = mab.predict(ctxs[idx])
            return p if isinstance(p, list) else [p]
        return [mab.predict() for _ in idx]

    def expect_block(idx):
        if ctxl:
            e = mab.predict_expectations(ctxs[idx])
            return e if isinstance(e, list) else [e]
        return None
    if not run.batch:
        blocks = [te]
        if chunked and run.chunk < len(te):
            blocks = [te[i:i + run.chunk] for i in range(0, len(te), run.chunk)]
        for b in blocks:
            preds += predict_block(b)
            if variant_expect:
                e = expect_block(b)
                if e is not None:
                    exps += e
        return preds, exps
    for s in range(0, len(te), run.batch):
        b = te[s:s + run.batch]
        preds += predict_block(b)
        if variant_expect:
            e = expect_block(b)
            if e is not None:
                exps += e
        if ctxl:
            mab.partial_fit(dec[b], rew[b], ctxs[b])
        else:
            mab.partial_fit(dec[b], rew[b])
    return preds, exps


def deterministic(cfg):
    return not randomised(cfg)


def exc_sig(run, case, sig):
    """Signature of a Simulator.run() exception: exception type, and the two specific circumstances that are listed as
    known findings (online chunk budget below the batch size; non-integral float arm labels in confusion_matrix)."""
    out = dict(sig)
    out["exc"] = type(run.exc).__name__
    arms = case["cfgs"][0]["arms"]
    # sklearn's type_of_target calls non-integral float labels 'continuous'; depending on whether the logged decisions and
    # the predictions of a batch both contain such a label the message is "continuous is not supported" or "... can't
    # handle a mix of binary/multiclass and continuous targets" - one defect (confusion_matrix on float arm labels)
    msg = str(run.exc)
    if (("continuous is not supported" in msg or ("mix of" in msg and "continuous" in msg)) and
            any(isinstance(a, float) and a != int(a) for a in arms)):
        out["kf_float"] = "float-arms-confusion-matrix"
    return out


def api_raises_too(run, case):
    """Simulator.run() raised: does driving one of its bandits through the public API raise as well (e.g. a metric that is
    undefined for this data, a training set smaller than k or than the number of clusters)? Then there are no reported
    results on either side and neither C15 nor C16 makes a claim."""
    for i in range(len(case["cfgs"])):
        try:
            api_reference(run, case, i, True, False)
        except Exception as e:   # noqa
            return type(e).__name__
    return None
