"""Module-level (picklable) binarizers for Thompson Sampling. None of them is idempotent on {0,1} except `ident`,
so applying one twice is visible: the second application maps every 0/1 to one constant."""


def _armnum(arm):
    # stable, hash-seed independent number for any arm label
    return sum(ord(c) for c in str(arm)) % 3


def gt10(arm, reward):
    return reward > 10


def arm_thr(arm, reward):
    # arm dependent threshold 2, 5 or 8
    return reward > 2 + 3 * _armnum(arm)


def lt_arm(arm, reward):
    # "low is success": second application maps 0/1 to success for thresholds > 1
    return reward < 3 + 3 * _armnum(arm)


def ge5_int(arm, reward):
    return 1 if reward >= 5 else 0


def ident(arm, reward):
    return reward


BINARIZERS = {"gt10": gt10, "arm_thr": arm_thr, "lt_arm": lt_arm, "ge5_int": ge5_int, "ident": ident}
NAME_OF = {v: k for k, v in BINARIZERS.items()}
