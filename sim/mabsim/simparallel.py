"""SimParallel: the only executor mabwiser sees in a simulated run (stand-in for joblib.Parallel).

sequential   n_jobs == 1: tasks run in order in the calling thread (what joblib does).
thread mode  require='sharedmem' or backend='threading': every task is a real thread, but exactly one thread
             is ever runnable; the scheduler (seeded PRNG of the operation) decides who runs, and workers hand
             the baton back at sys.monitoring LINE/INSTRUCTION events on mabwiser code objects.
process mode backend in {None, loky, multiprocessing}: consecutive tasks are grouped into batches; each batch
             runs on pickle.loads(pickle.dumps(batch)) so tasks of one batch share one private copy of `self`
             and nothing a worker mutates reaches the parent; results travel back through pickle. (STUB of the
             loky / multiprocessing backends that keeps the two facts results can depend on.)
"""
import math
import pickle
import sys
import threading
import types

from . import kernel

mon = sys.monitoring
TOOL = 4
_EVENTS = {"LINE": mon.events.LINE, "INSTRUCTION": mon.events.INSTRUCTION}
STEP_CAP = 2_000_000

_code_objects = None
_workers = {}           # thread ident -> _Task
_tool_ready = False


def _walk_code(co, out):
    if co in out:
        return
    out.add(co)
    for c in co.co_consts:
        if isinstance(c, types.CodeType):
            _walk_code(c, out)


def mabwiser_code_objects():
    """All code objects defined in mabwiser.* modules (enumerated once, in a deterministic order)."""
    global _code_objects
    if _code_objects is not None:
        return _code_objects
    out = set()
    for name in sorted(sys.modules):
        if not (name == "mabwiser" or name.startswith("mabwiser.")):
            continue
        mod = sys.modules[name]
        for _, obj in sorted(vars(mod).items()):
            _collect(obj, name, out, 0)
    _code_objects = sorted(out, key=lambda c: (c.co_filename, c.co_firstlineno, c.co_name))
    return _code_objects


def _collect(obj, modname, out, depth):
    if depth > 3:
        return
    if isinstance(obj, (staticmethod, classmethod)):
        obj = obj.__func__
    if isinstance(obj, property):
        for f in (obj.fget, obj.fset, obj.fdel):
            if f is not None:
                _collect(f, modname, out, depth)
        return
    if isinstance(obj, types.FunctionType):
        if getattr(obj, "__module__", None) and obj.__module__.startswith("mabwiser"):
            _walk_code(obj.__code__, out)
    elif isinstance(obj, type):
        if getattr(obj, "__module__", "").startswith("mabwiser"):
            for _, sub in sorted(vars(obj).items(), key=lambda kv: kv[0]):
                _collect(sub, modname, out, depth + 1)


def _ensure_tool():
    global _tool_ready
    if _tool_ready:
        return
    if mon.get_tool(TOOL) is None:
        mon.use_tool_id(TOOL, "mabsim")
    mon.register_callback(TOOL, mon.events.LINE, _on_event)
    mon.register_callback(TOOL, mon.events.INSTRUCTION, _on_event)
    _tool_ready = True


def _set_events(ev):
    for co in mabwiser_code_objects():
        mon.set_local_events(TOOL, co, ev)


def _on_event(code, where):
    t = _workers.get(threading.get_ident())
    if t is None:
        return None
    sim = t.sim
    sim.events += 1
    if sim.events > STEP_CAP:
        sim.capped = True
        return None
    sim.countdown -= 1
    if sim.countdown > 0:
        return None
    sim.countdown = sim.draw_gap()
    sim.yields += 1
    # hand the baton back to the scheduler and wait to be released again
    sim.back.set()
    t.go.wait()
    t.go.clear()
    return None


class InjectedWorkerFailure(MemoryError):
    pass


class _Task:
    __slots__ = ("idx", "fn", "args", "kwargs", "go", "done", "result", "exc", "thread", "sim", "started")

    def __init__(self, idx, spec, sim):
        self.idx = idx
        self.fn, self.args, self.kwargs = spec
        self.go = threading.Event()
        self.done = False
        self.result = None
        self.exc = None
        self.thread = None
        self.sim = sim
        self.started = False


class _ThreadSim:
    def __init__(self, sched, ctx):
        self.sched = sched
        self.ctx = ctx
        self.back = threading.Event()
        self.events = 0
        self.yields = 0
        self.capped = False
        self.countdown = self.draw_gap()

    def draw_gap(self):
        p = self.sched.p_yield
        if p <= 0:
            return 1 << 60
        u = self.sched.rnd.random()
        return int(math.log(1.0 - u) / math.log(1.0 - p)) + 1

    def _body(self, t):
        _workers[threading.get_ident()] = t
        t.go.wait()
        t.go.clear()
        try:
            t.result = t.fn(*t.args, **t.kwargs)
        except BaseException as e:   # noqa: re-raised by the scheduler in the caller
            t.exc = e
        finally:
            t.done = True
            _workers.pop(threading.get_ident(), None)
            self.back.set()

    def run(self, specs, n_jobs):
        ctx, rnd = self.ctx, self.sched.rnd
        tasks = [_Task(i, s, self) for i, s in enumerate(specs)]
        pending = list(tasks)
        active = []
        while pending and len(active) < n_jobs:
            active.append(pending.pop(0))
        first_exc = None
        tape = []
        use_events = self.sched.p_yield > 0
        if use_events:
            _ensure_tool()
            _set_events(_EVENTS[self.sched.level])
        try:
            while active:
                t = active[rnd.randrange(len(active))] if len(active) > 1 else active[0]
                tape.append(t.idx)
                if not t.started:
                    t.started = True
                    t.thread = threading.Thread(target=self._body, args=(t,), daemon=True)
                    t.thread.start()
                self.back.clear()
                t.go.set()
                self.back.wait()
                if t.done:
                    t.thread.join()
                    active.remove(t)
                    if t.exc is not None and first_exc is None:
                        first_exc = t.exc
                    if pending and first_exc is None:
                        active.append(pending.pop(0))
        finally:
            if use_events:
                _set_events(0)
        ctx.monitor_events += self.events
        ctx.ev("threads", len(tasks), n_jobs, tape if len(tape) <= 64 else [len(tape), kernel.H(*tape)],
               self.events, self.yields)
        ctx.fired("sched.thread_calls")
        ctx.fired("sched.thread_switches", max(0, len(tape) - len(tasks)))
        if self.yields:
            ctx.fired("sched.yields", self.yields)
            names = {getattr(t.fn, "__name__", "?") for t in tasks}
            for n in names:
                ctx.fired("probe.yield_inside." + n)
        if tape != sorted(tape):
            ctx.fired("sched.out_of_order_completion")
        if self.capped:
            raise kernel.HarnessError("monitoring step cap exceeded")
        if first_exc is not None:
            raise first_exc
        return [t.result for t in tasks]


def _maybe_fail(sched, ctx, call_no, idx):
    if sched is not None and sched.fail is not None and sched.fail[0] == call_no and sched.fail[1] == idx:
        ctx.fired("fault.worker_failure")
        ctx.ev("worker_failure", call_no, idx)
        raise InjectedWorkerFailure("injected worker failure")


def _wrap_fail(spec, sched, ctx, call_no, idx):
    fn, args, kwargs = spec

    def failing(*a, **k):
        _maybe_fail(sched, ctx, call_no, idx)
        return fn(*a, **k)
    failing.__name__ = getattr(fn, "__name__", "task")
    return (failing, args, kwargs)


class SimParallel:
    """Drop-in for joblib.Parallel inside mabwiser modules."""

    def __init__(self, n_jobs=None, backend=None, require=None, **kw):
        self.n_jobs = 1 if n_jobs is None else n_jobs
        self.backend = backend
        self.require = require

    def __call__(self, iterable):
        specs = list(iterable)
        ctx = kernel.cur()
        sched = ctx.sched
        call_no = ctx.parallel_calls
        ctx.parallel_calls += 1
        n_jobs = self.n_jobs
        if n_jobs < 0:      # mabwiser always passes effective (positive) n_jobs; mirror joblib otherwise
            n_jobs = max((sched.cores if sched else 16) + 1 + n_jobs, 1)
        in_worker = threading.get_ident() in _workers
        if n_jobs == 1 or len(specs) <= 1 or in_worker:
            out = []
            for i, (fn, args, kwargs) in enumerate(specs):
                if not in_worker:
                    _maybe_fail(sched, ctx, call_no, i)
                out.append(fn(*args, **kwargs))
            if not in_worker:
                ctx.fired("sched.sequential_calls")
            return out
        if sched is None:
            sched = kernel.Sched(0)
        shared = self.require == "sharedmem" or self.backend == "threading"
        if shared:
            if sched.fail is not None and sched.fail[0] == call_no:
                specs = [_wrap_fail(s, sched, ctx, call_no, i) for i, s in enumerate(specs)]
            if sched.canonical:
                ctx.fired("sched.canonical_calls")
                return [fn(*a, **k) for fn, a, k in specs]
            return _ThreadSim(sched, ctx).run(specs, n_jobs)
        return self._process_mode(specs, n_jobs, sched, ctx, call_no)

    def _process_mode(self, specs, n_jobs, sched, ctx, call_no):
        rnd = sched.rnd
        n = len(specs)
        # group consecutive tasks into batches (joblib's batch_size='auto' is timing dependent in reality)
        if sched.canonical:
            bounds = list(range(n + 1))
        else:
            cuts = sorted(rnd.sample(range(1, n), rnd.randint(0, n - 1))) if n > 1 else []
            bounds = [0] + cuts + [n]
        batches = [list(range(bounds[i], bounds[i + 1])) for i in range(len(bounds) - 1)]
        order = list(range(len(batches)))
        if not sched.canonical:
            rnd.shuffle(order)
        results = [None] * n
        first_exc = None
        for b in order:
            idxs = batches[b]
            payload = pickle.loads(pickle.dumps([specs[i] for i in idxs], protocol=pickle.HIGHEST_PROTOCOL))
            if len(idxs) > 1:
                ctx.fired("probe.process_batch_shared_copy")
            for i, (fn, args, kwargs) in zip(idxs, payload):
                try:
                    _maybe_fail(sched, ctx, call_no, i)
                    results[i] = pickle.loads(pickle.dumps(fn(*args, **kwargs), protocol=pickle.HIGHEST_PROTOCOL))
                except BaseException as e:   # noqa
                    if first_exc is None:
                        first_exc = e
                    break
        ctx.ev("procs", n, n_jobs, [len(b) for b in batches], order)
        ctx.fired("sched.process_calls")
        ctx.fired("sched.process_batches", len(batches))
        if order != sorted(order):
            ctx.fired("sched.out_of_order_batches")
        if first_exc is not None:
            raise first_exc
        return results
