"""mabsim: deterministic simulation with fault injection for fidelity/mabwiser."""
