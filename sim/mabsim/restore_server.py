"""A second interpreter (own PYTHONHASHSEED) that restores pickled bandits and runs a continuation on them.
Protocol: 8-byte length + pickle, both directions. Used by C19 (restore in another process) and C04."""
import os
import pickle
import struct
import subprocess
import sys

_procs = {}


def _send(f, obj):
    b = pickle.dumps(obj, protocol=4)
    f.write(struct.pack("<Q", len(b)))
    f.write(b)
    f.flush()


def _recv(f):
    h = f.read(8)
    if len(h) < 8:
        raise EOFError
    (n,) = struct.unpack("<Q", h)
    return pickle.loads(f.read(n))


def client_call(req, hashseed="random"):
    """Send one request to this process's restore server for the given PYTHONHASHSEED (started lazily)."""
    proc = _procs.get(hashseed)
    if proc is None or proc.poll() is not None:
        env = dict(os.environ)
        env["PYTHONHASHSEED"] = str(hashseed)
        proc = subprocess.Popen([sys.executable, os.path.abspath(__file__)], stdin=subprocess.PIPE,
                                stdout=subprocess.PIPE, env=env)
        _procs[hashseed] = proc
    _send(proc.stdin, req)
    return _recv(proc.stdout)


def reset_servers():
    """Terminate this process's helper interpreters: the next request starts fresh ones. Used for every execution made while
    minimising or replaying, so that nothing a helper remembers from earlier requests can make a case fail (or pass)."""
    for key, proc in list(_procs.items()):
        try:
            proc.stdin.close()
            proc.terminate()
            proc.wait(timeout=10)
        except Exception:
            pass
        _procs.pop(key, None)


def serve():
    here = os.path.dirname(os.path.dirname(os.path.abspath(__file__)))
    sys.path.insert(0, here)
    sys.path.insert(0, os.environ.get("MABWISER_SRC", "/repo"))
    from mabsim import kernel, seams
    from mabsim.world import Session
    seams.install()
    fin, fout = sys.stdin.buffer, sys.stdout.buffer
    sys.stdout = sys.stderr
    while True:
        try:
            req = _recv(fin)
        except EOFError:
            return
        try:
            kernel.set_ctx(kernel.Ctx(record=False))
            if req.get("kind") == "call":
                import importlib
                seams.reset_shared_defaults()
                fn = getattr(importlib.import_module(req["module"]), req["func"])
                _send(fout, {"result": fn(*req["args"]), "hashseed": os.environ.get("PYTHONHASHSEED"),
                             "pid": os.getpid()})
                continue
            mab = pickle.loads(req["pickle"])
            s = Session(req["cfg"], mab=mab)
            s.fitted, s.d, s.n_rows, s.has_binarizer = req["state"]
            outs = []
            for op in req["ops"]:
                r = s.apply(op)
                outs.append([r[0], kernel.canon(r[1])])
            _send(fout, {"outs": outs, "hashseed": os.environ.get("PYTHONHASHSEED"), "pid": os.getpid()})
        except Exception as e:   # noqa
            import traceback
            _send(fout, {"error": traceback.format_exc()})


if __name__ == "__main__":
    serve()
