"""Minimisation of a failing case: ddmin over every list the property module declares shrinkable (operations,
rows, query rows, interference scripts), then schedule and configuration simplification. A candidate is kept only
if the SAME violation class recurs. Sound because the operation interpreter is total (every sub-list is valid)."""
import copy


def _get(case, path):
    x = case
    for k in path:
        x = x[k]
    return x


def _set(case, path, val):
    x = case
    for k in path[:-1]:
        x = x[k]
    x[path[-1]] = val


class Budget:
    def __init__(self, n):
        self.left = n

    def take(self):
        self.left -= 1
        return self.left >= 0


def ddmin_list(case, path, fails, budget, keep_min=0):
    """Classic ddmin on the list at `path` (in place on a copy); returns the reduced case."""
    items = list(_get(case, path))
    n = 2
    while len(items) > keep_min and budget.left > 0:
        chunk = max(1, len(items) // n)
        reduced = False
        i = 0
        while i < len(items) and budget.left > 0:
            cand_items = items[:i] + items[i + chunk:]
            if len(cand_items) < keep_min:
                i += chunk
                continue
            cand = copy.deepcopy(case)
            _set(cand, path, cand_items)
            if budget.take() and fails(cand):
                items = cand_items
                case = cand
                n = max(n - 1, 2)
                reduced = True
            else:
                i += chunk
        if not reduced:
            if chunk == 1:
                break
            n = min(len(items), n * 2)
    return case


def default_paths(case):
    paths = [("ops",)] if "ops" in case else []
    return paths


def nested_paths(case):
    out = []
    for i, op in enumerate(case.get("ops", [])):
        if isinstance(op, dict):
            for key in ("rows", "Q", "script", "queries", "cont"):
                if isinstance(op.get(key), list) and len(op[key]) > 1:
                    out.append(("ops", i, key))
    return out


def simplify_scheds(case, fails, budget):
    def walk(x, path, acc):
        if isinstance(x, dict):
            for k, v in x.items():
                if k in ("sched", "sched2") and isinstance(v, dict):
                    acc.append(path + (k,))
                else:
                    walk(v, path + (k,), acc)
        elif isinstance(x, list):
            for i, v in enumerate(x):
                walk(v, path + (i,), acc)
    acc = []
    walk(case, (), acc)
    for p in acc:
        if budget.left <= 0:
            break
        s = _get(case, p)
        for change in ({"__all__": None}, {"p_yield": 0.0}, {"partition": "real"}, {"level": "LINE"},
                       {"fail": None}, {"cores": 16}):
            cand = copy.deepcopy(case)
            if "__all__" in change:
                _set(cand, p, {"seed": 0})
            else:
                k, v = next(iter(change.items()))
                if s.get(k) == v or k not in s:
                    continue
                _get(cand, p)[k] = v
                if v is None:
                    _get(cand, p).pop(k)
            if budget.take() and fails(cand):
                case = cand
                s = _get(case, p)
                if "__all__" in change:
                    break
    return case


def _arms_used(case):
    used = set()

    def walk(x):
        if isinstance(x, dict):
            if x.get("op") in ("add_arm", "remove_arm") and "arm" in x:
                used.add(repr(x["arm"]))
            for k, v in x.items():
                if k == "rows" and isinstance(v, list):
                    for r in v:
                        if isinstance(r, list) and r:
                            used.add(repr(r[0]))
                elif k == "features" and isinstance(v, list):
                    continue
                else:
                    walk(v)
        elif isinstance(x, list):
            for v in x:
                walk(v)
    walk({k: v for k, v in case.items() if k not in ("cfg", "cfgs")})
    return used


def simplify_cfg(case, fails, budget):
    """Configuration simplification: sequential execution, default backend, fewer arms (only arms no operation mentions)."""
    cfg = case.get("cfg")
    if not isinstance(cfg, dict) or "arms" not in cfg or "cfgs" in case:
        return case
    for key, val in (("n_jobs", 1), ("backend", None)):
        if cfg.get(key, val) != val and budget.left > 0:
            cand = copy.deepcopy(case)
            cand["cfg"][key] = val
            if budget.take() and fails(cand):
                case = cand
                cfg = case["cfg"]
    par = case.get("par")
    if isinstance(par, dict):
        for key, val in (("n_jobs", 2), ("backend", "threading")):
            if par.get(key) != val and budget.left > 0:
                cand = copy.deepcopy(case)
                cand["par"][key] = val
                if budget.take() and fails(cand):
                    case = cand
    npol = cfg.get("np")
    if npol and npol[1].get("no_nhood_prob_of_arm"):
        return case         # the probability list has one entry per arm
    used = _arms_used(case)
    for arm in list(cfg["arms"]):
        if len(case["cfg"]["arms"]) <= 2 or budget.left <= 0:
            break
        if repr(arm) in used:
            continue
        cand = copy.deepcopy(case)
        cand["cfg"]["arms"] = [a for a in cand["cfg"]["arms"] if a != arm]
        if budget.take() and fails(cand):
            case = cand
    return case


def shrink(case, fails, mod=None, max_exec=400):
    budget = Budget(max_exec)
    paths_fn = getattr(mod, "shrink_paths", None)
    for _round in range(2):
        before = repr(case)
        paths = paths_fn(case) if paths_fn else default_paths(case)
        for p in paths:
            try:
                _get(case, p)
            except (KeyError, IndexError):
                continue
            case = ddmin_list(case, p, fails, budget, keep_min=getattr(mod, "KEEP_MIN", {}).get(p[-1], 0))
        for p in nested_paths(case):
            try:
                _get(case, p)
            except (KeyError, IndexError):
                continue
            case = ddmin_list(case, p, fails, budget, keep_min=1)
        case = simplify_scheds(case, fails, budget)
        case = simplify_cfg(case, fails, budget)
        extra = getattr(mod, "simplify", None)
        if extra:
            case = extra(case, fails, budget)
        if repr(case) == before or budget.left <= 0:
            break
    return case, max_exec - max(budget.left, 0)
