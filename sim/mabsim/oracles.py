"""Shared oracle helpers."""
import math

import numpy as np

from . import kernel
from .world import diff


def shape_of(val):
    """Structure of a predict / predict_expectations result: list length, key order, NaN pattern."""
    if isinstance(val, list):
        return ["L", [shape_of(v) for v in val]]
    if isinstance(val, dict):
        return ["D", [[kernel.canon(k), _isnan(v)] for k, v in val.items()]]
    return ["S"]


def _isnan(v):
    try:
        return bool(math.isnan(float(v)))
    except (TypeError, ValueError):
        return False


def compare_results(ra, rb, rtol=0.0, atol=0.0):
    """Compare two (status, value) results. Returns None, ("shape", detail) or ("values", detail)."""
    sa, va = ra
    sb, vb = rb
    if sa != sb:
        return ("shape", "status %r/%r vs %r/%r" % (sa, va if sa == "exc" else "", sb, vb if sb == "exc" else ""))
    if sa == "skip":
        return None
    if sa == "exc":
        return None if va == vb else ("shape", "exception %s vs %s" % (va, vb))
    if va is None and vb is None:
        return None
    if shape_of(va) != shape_of(vb):
        return ("shape", "%r vs %r" % (shape_of(va), shape_of(vb)))
    d = diff(va, vb, rtol, atol)
    if d:
        return ("values", d)
    return None


def check_result_shape(val, arms, m, is_predict):
    """C08-style invariants on one result. Returns None or a description."""
    if m is None or m == 1:
        items = [val]
        if isinstance(val, list):
            return "single result expected, got list of %d" % len(val)
    else:
        if not isinstance(val, list):
            return "list of %d expected, got %s" % (m, type(val).__name__)
        if len(val) != m:
            return "list of %d expected, got %d" % (m, len(val))
        items = val
    for it in items:
        if is_predict:
            if isinstance(it, (dict, list)) or it not in arms:
                return "predict %r not in arms %r" % (it, arms)
        else:
            if not isinstance(it, dict) or list(it.keys()) != list(arms):
                return "expectation keys %r != arms %r" % (list(it.keys()) if isinstance(it, dict) else it, arms)
    return None


def first_argmax(exp):
    best, bv = None, None
    for k, v in exp.items():
        if bv is None or v > bv:
            best, bv = k, v
    return best


def as_list(val, m):
    if m is None or m == 1:
        return [val]
    return list(val)


def arr(x):
    return np.asarray(x, dtype=float)
