#!/venv/bin/python
"""Entry point of every registered check.

  run.py --property C05 --tier quick|thorough      search (honours VERIF_SEED, VERIF_TIER, VERIF_BUDGET_S, VERIF_RUNS)
  run.py --replay /verif/replays/<file>.json        re-execute one minimised case in this (fresh) interpreter
  run.py --selftest determinism [--property Cxx]    simulator self-tests (DESIGN section 11)

Executed as a file (never -m). MABWISER_SRC (default /repo) is put first on sys.path so the checks always
exercise the current working tree.
"""
import argparse
import os
import sys

for _v in ("OMP_NUM_THREADS", "OPENBLAS_NUM_THREADS", "MKL_NUM_THREADS"):
    os.environ[_v] = "1"
if os.environ.get("PYTHONHASHSEED") is None:
    os.environ["PYTHONHASHSEED"] = "0"
    os.execv(sys.executable, [sys.executable] + sys.argv)

HERE = os.path.dirname(os.path.abspath(__file__))
SRC = os.environ.get("MABWISER_SRC", "/repo")
sys.path.insert(0, HERE)
sys.path.insert(0, SRC)
sys.dont_write_bytecode = True


def main():
    ap = argparse.ArgumentParser()
    ap.add_argument("--property")
    ap.add_argument("--tier", default=os.environ.get("VERIF_TIER", "quick"))
    ap.add_argument("--replay")
    ap.add_argument("--selftest")
    ap.add_argument("--runs", type=int)
    ap.add_argument("--budget", type=float)
    ap.add_argument("--workers", type=int)
    ap.add_argument("--digests", action="store_true", help="print per-run digests (determinism self-test)")
    a = ap.parse_args()
    import mabwiser
    assert os.path.abspath(mabwiser.__file__).startswith(os.path.abspath(SRC)), mabwiser.__file__
    from mabsim import driver
    seed = int(os.environ.get("VERIF_SEED", "0"))
    if a.replay:
        return driver.replay(a.replay)
    if a.selftest:
        from mabsim import selftest
        return selftest.main(a.selftest, a.property, seed, a.runs)
    if a.digests:
        from mabsim import selftest
        return selftest.print_digests(a.property, a.tier, seed, a.runs or 50)
    if a.tier not in ("quick", "thorough"):
        a.tier = "quick"
    return driver.run_property(a.property, a.tier, seed, budget_s=a.budget, n_runs=a.runs, workers=a.workers)


if __name__ == "__main__":
    try:
        rc = main()
    except SystemExit:
        raise
    except BaseException:      # never let a crash of the machinery look like a verdict (exit 1 = VIOLATION)
        import traceback
        traceback.print_exc()
        print("HARNESS-ERROR unexpected exception in the driver")
        rc = 2
    sys.exit(rc)
